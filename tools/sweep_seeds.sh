#!/bin/bash
# tools/sweep_seeds.sh [tier] — run every kept seeded change through its property's check; /repo must be clean.
TIER=${1:-quick}
cd /verif
for d in seeded/*/; do
  n=$(basename $d); id=${n%%-*}
  out=$(tools/try_seed.sh $id /verif/$d/patch.diff $TIER 2>&1)
  rc=$(echo "$out" | grep -o 'exit=[0-9]*' | tail -1)
  echo "$n $rc $(echo "$out" | grep -E '^---' | head -1 | cut -c1-160)"
done
