#!/usr/bin/env python3
"""Regenerates /verif/MANIFEST.json from harness/checks.json + tools/manifest_text.json."""
import json
checks = {p['id']: p for p in json.load(open('/verif/harness/checks.json'))}
text = json.load(open('/verif/tools/manifest_text.json'))
props = [json.loads(l) for l in open('/verif/properties.jsonl')]
out = {
 "version": 1,
 "setup_cmd": "/verif/tools/setup.sh",
 "hooks": {"guard": "verif", "enable": "go test -c -tags verif (the harness module replaces github.com/tmpim/casket with /repo)",
           "baseline_off_cmd": "cd /repo && GOFLAGS=-mod=mod GOPROXY=off GOSUMDB=off go test -vet=off -count=1 ./...",
           "source_commits": text.get("hook_commits", []), "add_only": True},
 "engines": [{"name": "vcheck", "path": "harness/cmd/vcheck", "serves_properties": sorted(checks), "kind_free_text": "Go driver: builds one test binary per property against /repo's working tree, runs rapid (pgregory.net/rapid v1.3.0) property tests as sharded processes with derived seeds (optionally in a private network namespace), native go fuzzing in the thorough tier, merges per-case statistics into the evidence file"}],
 "checks": [], "not_applicable": [],
 "notes": "One technique throughout: generated-input search (rapid generators / exhaustive enumerators / native fuzzing) against explicit oracles. See DESIGN.md. known_findings.json lists genuine defects (fixed by fix: commits or open).",
}
for p in props:
    i = p['id']
    if i in checks and i in text['checks']:
        t = text['checks'][i]
        out['checks'].append({
            "property_id": i,
            "quick_cmd": f"./check {i} quick",
            "thorough_cmd": f"./check {i} thorough",
            "evidence_file": f"/verif/evidence/{i}.json",
            "replay_cmd_template": f"./check {i} --replay {{path}}",
            "engine": "vcheck",
            "level_claimed": {"category": checks[i].get('level', 'exploration'), "text": t['level_text'], "design_ref": f"DESIGN.md section 4, {i}"},
            "level_note": t['level_note'],
            "technique": t['technique'],
        })
    else:
        out['not_applicable'].append({"property_id": i, "reason": text.get('na', {}).get(i, "check not built yet in this session (work in progress; property-based testing applies, see DESIGN.md)")})
json.dump(out, open('/verif/MANIFEST.json', 'w'), indent=1)
print("checks:", [c['property_id'] for c in out['checks']], "n/a:", len(out['not_applicable']))
