#!/bin/bash
# MANIFEST.setup_cmd: build the driver and warm the build cache for every property's test binary (offline).
set -u
cd /verif || exit 1
export GOFLAGS=-mod=mod GOPROXY=off GOSUMDB=off GOTOOLCHAIN=local
mkdir -p .build evidence
(cd harness && go build -o ../.build/vcheck ./cmd/vcheck) || exit 1
rc=0
for id in $(python3 -c "import json;print(' '.join(p['id'] for p in json.load(open('harness/checks.json'))))"); do
  ./.build/vcheck $id --build || rc=1
done
exit $rc
