#!/bin/bash
# tools/confirm_seed.sh <ID> <variant> <pkgdir> <run-regex> [demo-file-name]   (SEEDROOT=/tmp/seed2 for round 2)
# Confirms a seeded change in the scratch worktree /tmp/seed/<ID> (reset to /repo HEAD):
#  suite passes with the patch; demo fails with it and passes without it.
set -u
export GOFLAGS=-mod=mod GOPROXY=off GOSUMDB=off GOTOOLCHAIN=local
ID=$1; V=$2; PKG=$3; RUN=$4; NAME=${5:-zz_seed_demo_test.go}
W=${SEEDROOT:-/tmp/seed}/$ID; O=$W/_out/$V
cd $W || exit 2
git checkout -q -- . ; git checkout -q --detach $(git -C /repo rev-parse HEAD) || exit 2
if ! git apply "$O/patch.diff"; then echo "CONFIRM: patch does not apply to current HEAD"; exit 3; fi
go build ./... || { echo "CONFIRM: build fails"; git checkout -q -- .; exit 3; }
go test -vet=off -count=1 ./... > /tmp/confirm.$ID.$V.suite 2>&1; s=$?
echo "suite-with-patch exit=$s  $(grep -c '^ok' /tmp/confirm.$ID.$V.suite) ok, $(grep -c '^FAIL' /tmp/confirm.$ID.$V.suite) FAIL"
cp "$O"/demo_test.go "$PKG/$NAME"
go test -vet=off -count=1 -run "$RUN" ./$PKG/ > /tmp/confirm.$ID.$V.with 2>&1; w=$?
git checkout -q -- .
go test -vet=off -count=1 -run "$RUN" ./$PKG/ > /tmp/confirm.$ID.$V.without 2>&1; wo=$?
rm -f "$PKG/$NAME"
git status --porcelain | grep -v '^?? _out' 
echo "demo-with-patch exit=$w (want 1)   demo-without-patch exit=$wo (want 0)"
grep -E "^(--- FAIL|ok|FAIL)" /tmp/confirm.$ID.$V.with | head -5
