#!/opt/veriftools/pyvenv/bin/python3
import json,jsonschema,glob,sys
jsonschema.validate(json.load(open('/verif/MANIFEST.json')),json.load(open('/root/.vp/MANIFEST.schema.json')))
print('manifest ok')
es=json.load(open('/root/.vp/EVIDENCE.schema.json'))
for f in sorted(glob.glob('/verif/evidence/*.json')):
    try:
        jsonschema.validate(json.load(open(f)),es); print('ok',f)
    except Exception as e:
        print('BAD',f,str(e)[:300]); sys.exit(1)
