#!/bin/bash
# tools/run_all.sh <tier> <seed> [parallel]  — run every registered check; summary lines only.
TIER=${1:-quick}; SEED=${2:-20260927}; PAR=${3:-1}
cd /verif
ids=$(python3 -c "import json;print(' '.join(x['id'] for x in json.load(open('harness/checks.json'))))")
printf "%s\n" $ids | xargs -P $PAR -I{} sh -c "VERIF_SEED=$SEED ./check {} $TIER > /tmp/runall.{}.$TIER.$SEED.out 2>&1; echo \"{} rc=\$? \$(grep -E '^(OK|VIOLATION|INCONCLUSIVE|KNOWN|NOTE)' /tmp/runall.{}.$TIER.$SEED.out | tr '\n' ' ' | cut -c1-300)\""
