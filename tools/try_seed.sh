#!/bin/bash
# tools/try_seed.sh <ID> <patch.diff> [tier]  — apply a seeded change to /repo, run the check, always undo.
set -u
ID=$1; PATCH=$2; TIER=${3:-quick}
cd /repo || exit 2
if [ -n "$(git status --porcelain --untracked-files=no)" ]; then echo "/repo not clean"; exit 2; fi
if ! git apply "$PATCH" 2>/tmp/apply.err; then echo "patch does not apply:"; cat /tmp/apply.err; git reset -q --hard HEAD ; exit 3; fi
git reset -q 2>/dev/null
cd /verif && VERIF_EVIDENCE_SKIP=1 VERIF_FAILFAST=1 ./check "$ID" "$TIER" > /tmp/try_seed.$ID.out 2>&1; rc=$?
cd /repo && git checkout -q -- . && git status --porcelain --untracked-files=no
grep -E "^(VIOLATION|OK|INCONCLUSIVE|KNOWN|---)" /tmp/try_seed.$ID.out | head -12
echo "exit=$rc"
