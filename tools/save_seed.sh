#!/bin/bash
# tools/save_seed.sh <ID> <variant> <needs> <demo cmd> <detected: yes/no + by which sub-check>
set -u
ID=$1; V=$2; NEEDS=$3; CMD=$4; DET=$5
OV=${OUTV:-$V}; D=/verif/seeded/$ID-$OV; O=${SEEDROOT:-/tmp/seed}/$ID/_out/$V
mkdir -p $D && cp $O/patch.diff $D/ && cp $O/demo_test.go $D/ 2>/dev/null; cp $O/README.md $D/README.agent.md 2>/dev/null
python3 - "$ID" "$OV" "$NEEDS" "$CMD" "$DET" <<'PY'
import json,sys,subprocess
ID,V,NEEDS,CMD,DET=sys.argv[1:6]
head=subprocess.check_output(['git','-C','/repo','rev-parse','--short','HEAD']).decode().strip()
json.dump({"property":ID,"variant":V,"breaks":ID,"needs_to_manifest":NEEDS,
 "confirmed":{"base_commit":head,"suite_with_patch":"go test -vet=off -count=1 ./... : all packages ok","demo":CMD,"demo_with_patch":"FAIL","demo_without_patch":"PASS"},
 "detected_by_check":DET,"origin":"independent sub-agent given only the property text and a scratch worktree"},open(f'/verif/seeded/{ID}-{V}/meta.json','w'),indent=1)
PY
ls $D
