package c20

import (
	"bytes"
	"context"
	"crypto/tls"
	"fmt"
	"io"
	"net"
	"net/http"
	"net/url"
	"os"
	"path"
	"path/filepath"
	"sort"
	"strings"
	"sync"
	"sync/atomic"
	"testing"
	"time"

	"github.com/tmpim/casket/caskethttp/httpserver"
	"pgregory.net/rapid"

	"verif/harness/internal/probe"
	"verif/harness/internal/srv"
	"verif/harness/internal/vt"
)

func TestMain(m *testing.M) {
	vt.Property = "C20"
	probe.Register()
	vt.Main(m)
}

// ---------------------------------------------------------------------------
// (A) end to end: exactly one line per covering log, accurate status/size

type LogDir struct {
	Scope  string   `json:"scope"`
	Except []string `json:"except,omitempty"`
	Fmt    int      `json:"fmt"` // index into formats
}

type Req struct {
	Method string       `json:"method"`
	Path   string       `json:"path"`
	AE     string       `json:"ae"`
	Evil   string       `json:"evil"` // value of the X-Evil request header (request-controlled text)
	Kind   string       `json:"kind"`
	Script probe.Script `json:"script"`
}

type Case struct {
	Logs     []LogDir `json:"logs"`
	Wrappers []string `json:"wrappers"`
	Clients  int      `json:"clients"`
	Reqs     []Req    `json:"reqs"`
	// CaseSensitive: the process runs with CASE_SENSITIVE_PATH=1 (path scopes compare letter case)
	CaseSensitive bool `json:"case_sensitive,omitempty"`
	// H2: the site is an HTTPS site (self-signed) and the clients speak HTTP/2
	H2 bool `json:"h2,omitempty"`
}

// set for the case being run (cases run one after the other)
var caseSensitive bool

// every format starts with the join key and the fields under test, in a fixed, parseable shape
var formats = []string{
	`{>X-Id} {status} {size} {method} [{>X-Evil}]`,
	`{>X-Id} {status} {size} {method} [{>X-Evil}] \{literal\} {nosuch} {uri}`,
	`{>X-Id} {status} {size} {method} [{>X-Evil}] {proto} {>User-Agent}`,
}

var wrapperText = map[string]string{
	"gzip":        "gzip {\n\t\text *\n\t}",
	"errors":      "errors {DIR}/errors.log",
	"errpage":     "errors {DIR}/errors.log {\n\t\t404 {DIR}/err404.html\n\t}",
	"header":      "header / X-Wrap yes",
	"header-echo": "header / X-Echo \"{>X-Evil}|{nosuch}|{>User-Agent}\"", // another directive expands the placeholders the log formats use
	"limits":      "limits 1MB",
	"status":      "status 410 /gone",
	"redir":       "redir /moved /elsewhere 301",
	"rewrite-in":  "rewrite /p/x /api/v1/rewritten",
	"rewrite-out": "rewrite /api/v1/y /other/rewritten",
	"ext":         "ext .html",
}

func workdir(n int64) string {
	d := filepath.Join(vt.WorkDir, fmt.Sprintf("c20-%d", n))
	os.MkdirAll(d, 0o755)
	os.WriteFile(filepath.Join(d, "err404.html"), []byte("<html>custom 404 page</html>\n"), 0o644)
	return d
}

func casketfile(c *Case, dir string) string {
	var sb strings.Builder
	if c.H2 {
		fmt.Fprintf(&sb, "https://localhost:0 {\n\ttls self_signed\n\troot %s\n", dir)
	} else {
		fmt.Fprintf(&sb, "http://localhost:0 {\n\troot %s\n", dir)
	}
	for i, l := range c.Logs {
		fmt.Fprintf(&sb, "\tlog %s %s/log%d.txt \"%s\"", l.Scope, dir, i, strings.ReplaceAll(formats[l.Fmt], `"`, `\"`))
		if len(l.Except) > 0 {
			fmt.Fprintf(&sb, " {\n\t\texcept %s\n\t}", strings.Join(l.Except, " "))
		}
		sb.WriteString("\n")
	}
	for _, w := range c.Wrappers {
		fmt.Fprintf(&sb, "\t%s\n", strings.ReplaceAll(wrapperText[w], "{DIR}", dir))
	}
	sb.WriteString("\tzz_probe\n}\n")
	return sb.String()
}

// documented matcher: cleaned, case-insensitive prefix
func pathMatches(p, base string) bool {
	if base == "/" || base == "" {
		return true
	}
	pt, bt := strings.HasSuffix(p, "/"), strings.HasSuffix(base, "/")
	p, base = path.Clean(p), path.Clean(base)
	if pt {
		p += "/"
	}
	if bt {
		base += "/"
	}
	if caseSensitive {
		return strings.HasPrefix(p, base)
	}
	return strings.HasPrefix(strings.ToLower(p), strings.ToLower(base))
}

func covered(l LogDir, reqPath string) bool {
	if !pathMatches(reqPath, l.Scope) {
		return false
	}
	for _, e := range l.Except {
		if pathMatches(reqPath, e) {
			return false
		}
	}
	return true
}

type observed struct {
	id     string
	status int
	size   int
	evil   string
	method string
	done   bool
}

var seq int64

func runCase(c *Case) (nontrivial int, err error) {
	dir := workdir(atomic.AddInt64(&seq, 1))
	defer os.RemoveAll(dir)
	cf := casketfile(c, dir)
	caseSensitive = c.CaseSensitive
	httpserver.CaseSensitivePath = c.CaseSensitive
	defer func() { httpserver.CaseSensitivePath, caseSensitive = false, false }()
	inst, e := srv.Start(cf, "")
	if e != nil {
		srv.Stop(inst)
		return 0, fmt.Errorf("HARNESS: start: %v\n%s", e, cf)
	}
	stopped := false
	defer func() {
		if !stopped {
			srv.Stop(inst)
		}
	}()
	addr := ""
	for _, a := range srv.Addrs(inst) {
		if srv.PortOf(a) != "80" { // an HTTPS site also gets a redirect listener on :80
			addr = srv.Loopback(a)
		}
	}
	if addr == "" {
		return 0, fmt.Errorf("HARNESS: no listener among %v", srv.Addrs(inst))
	}
	var h2 *http.Client
	if c.H2 {
		tr := &http.Transport{TLSClientConfig: &tls.Config{InsecureSkipVerify: true, ServerName: "localhost", NextProtos: []string{"h2"}}, ForceAttemptHTTP2: true, DisableCompression: true,
			DialContext: func(ctx context.Context, network, _ string) (net.Conn, error) {
				return (&net.Dialer{Timeout: 5 * time.Second}).DialContext(ctx, network, addr)
			}}
		defer tr.CloseIdleConnections()
		h2 = &http.Client{Transport: tr, Timeout: 20 * time.Second, CheckRedirect: func(*http.Request, []*http.Request) error { return http.ErrUseLastResponse }}
	}

	obs := make([]observed, len(c.Reqs))
	var wg sync.WaitGroup
	work := make(chan int, len(c.Reqs))
	for i := range c.Reqs {
		work <- i
	}
	close(work)
	var firstErr atomic.Value
	clients := c.Clients
	if clients < 1 {
		clients = 1
	}
	for k := 0; k < clients; k++ {
		wg.Add(1)
		go func() {
			defer wg.Done()
			for i := range work {
				r := c.Reqs[i]
				id := fmt.Sprintf("id%d-%d", atomic.AddInt64(&seq, 1), i)
				s := r.Script
				s.ID = id
				hdr := [][2]string{{"X-Id", id}, {"X-Probe", probe.Encode(&s)}, {"Connection", "close"}, {"User-Agent", "verif/1.0"}}
				if r.Evil != "" {
					hdr = append(hdr, [2]string{"X-Evil", r.Evil})
				}
				if r.AE != "-" {
					hdr = append(hdr, [2]string{"Accept-Encoding", r.AE})
				}
				o := observed{id: id, evil: r.Evil, method: r.Method}
				var err error
				if h2 != nil {
					var req *http.Request
					req, err = http.NewRequest(r.Method, "https://localhost"+r.Path, nil)
					if err == nil {
						for _, kv := range hdr {
							if kv[0] != "Connection" {
								req.Header.Set(kv[0], kv[1])
							}
						}
						var resp *http.Response
						if resp, err = h2.Do(req); err == nil {
							var body []byte
							body, err = io.ReadAll(resp.Body)
							resp.Body.Close()
							if err == nil && resp.ProtoMajor != 2 {
								err = fmt.Errorf("HARNESS: response over %s, wanted HTTP/2", resp.Proto)
							}
							o.status, o.size, o.done = resp.StatusCode, len(body), err == nil
						}
					}
				} else {
					var resp *srv.Resp
					resp, err = srv.Once(addr, r.Method, srv.Request(r.Method, r.Path, "localhost", hdr, nil))
					if err == nil {
						o.status, o.size, o.done = resp.Status, len(resp.Body), true
					}
				}
				probe.Take(id)
				if err != nil {
					firstErr.CompareAndSwap(nil, fmt.Sprintf("request %d %+v: no well-formed response: %v", i, r.Path, err))
				}
				obs[i] = o
			}
		}()
	}
	wg.Wait()
	if v := firstErr.Load(); v != nil {
		return 0, fmt.Errorf("%s", v.(string))
	}
	// barrier: Stop drains the handlers, then the files are complete
	if h2 != nil {
		h2.CloseIdleConnections() // an idle HTTP/2 connection would keep the graceful stop waiting
	}
	srv.Stop(inst)
	stopped = true

	if c.H2 {
		// An HTTP/2 handler runs on its own goroutine: a HEAD request's client has its answer (and has closed the
		// connection) while the handler may still be writing the body that the server discards, and Stop does not
		// wait for a handler whose connection is gone.  Its log line is written when it returns: give those lines
		// up to two seconds to arrive (missing lines are still a violation after that).
		expected := 0
		for _, l := range c.Logs {
			for _, r := range c.Reqs {
				if covered(l, cleanReqPath(r.Path)) {
					expected++
				}
			}
		}
		for try := 0; try < 40; try++ {
			have := 0
			for li := range c.Logs {
				b, _ := os.ReadFile(filepath.Join(dir, fmt.Sprintf("log%d.txt", li)))
				have += bytes.Count(b, []byte("\n"))
			}
			if have >= expected {
				break
			}
			time.Sleep(50 * time.Millisecond)
		}
	}
	for li, l := range c.Logs {
		b, _ := os.ReadFile(filepath.Join(dir, fmt.Sprintf("log%d.txt", li)))
		lines := map[string][]string{}
		for _, line := range strings.Split(string(b), "\n") {
			if line == "" {
				continue
			}
			id := strings.SplitN(line, " ", 2)[0]
			lines[id] = append(lines[id], line)
		}
		for i, r := range c.Reqs {
			o := obs[i]
			want := 0
			if covered(l, cleanReqPath(r.Path)) {
				want = 1
			}
			ncover := 0
			for _, l2 := range c.Logs {
				if covered(l2, cleanReqPath(r.Path)) {
					ncover++
				}
			}
			if li == 0 && (strings.ContainsAny(r.Evil, "{}") || r.Kind == "error-nowrite" || ncover >= 2) {
				nontrivial++
			}
			got := lines[o.id]
			desc := fmt.Sprintf("log %d (%s scope %s except %v), request %d %s %s kind=%s", li, formats[l.Fmt], l.Scope, l.Except, i, r.Method, r.Path, r.Kind)
			if len(got) != want {
				return nontrivial, fmt.Errorf("%s: %d log lines for id %s, want %d; lines: %q", desc, len(got), o.id, want, got)
			}
			if want == 0 {
				continue
			}
			line := got[0]
			f := strings.SplitN(line, " ", 5)
			if len(f) < 5 {
				return nontrivial, fmt.Errorf("%s: malformed line %q", desc, line)
			}
			if f[1] != fmt.Sprint(o.status) {
				return nontrivial, fmt.Errorf("%s: logged status %s, client received %d; line %q", desc, f[1], o.status, line)
			}
			if r.Method != "HEAD" && f[2] != fmt.Sprint(o.size) {
				return nontrivial, fmt.Errorf("%s: logged size %s, client received %d body bytes; line %q", desc, f[2], o.size, line)
			}
			if f[3] != r.Method {
				return nontrivial, fmt.Errorf("%s: logged method %q; line %q", desc, f[3], line)
			}
			// request-controlled text is inserted verbatim and never expanded
			evil := o.evil
			if evil == "" {
				evil = "-"
			}
			wantRest := "[" + evil + "]"
			switch l.Fmt {
			case 1:
				wantRest += " {literal} - " + requestURI(r.Path)
			case 2:
				if c.H2 {
					wantRest += " HTTP/2.0 verif/1.0"
				} else {
					wantRest += " HTTP/1.1 verif/1.0"
				}
			}
			if f[4] != wantRest {
				return nontrivial, fmt.Errorf("%s: rest of line is %q, want %q (request text must appear verbatim, unknown placeholders as '-', escaped braces literal)", desc, f[4], wantRest)
			}
		}
		// no lines for ids we never sent
		known := map[string]bool{}
		for _, o := range obs {
			known[o.id] = true
		}
		for id := range lines {
			if !known[id] {
				return nontrivial, fmt.Errorf("log %d contains a line with unknown id %q: %q", li, id, lines[id])
			}
		}
	}
	return nontrivial, nil
}

func cleanReqPath(target string) string {
	u, err := url.ParseRequestURI(target)
	if err != nil {
		return target
	}
	return u.Path
}

func requestURI(target string) string {
	u, err := url.ParseRequestURI(target)
	if err != nil {
		return target
	}
	return u.RequestURI()
}

var scopes = []string{"/", "/api", "/api/v1", "/static", "/p", "/API", "/Static", "/api/V1"}
var reqPaths = []string{"/", "/api", "/api/x", "/api/v1/y", "/API/v1/y", "/static/a.css", "/Static/a.css", "/api/V1/q", "/p/x.html", "/p/x", "/other", "/api//v1/z", "/x/../api/w", "/api/v1/y?q={status}&r=1", "/p/x?a=\\{b\\}"}
var evils = []string{"", "", "plain", "{status}", "{>Cookie}", "{size} {method}", `\{x\}`, "{", "}", "}{", "{>X-Evil}", "{~session}", "{?q}", "a b  c", "{nosuch}", `\`, `{\}`, "{{status}}"}

func genReq(t *rapid.T, lb string) Req {
	r := Req{Method: rapid.SampledFrom([]string{"GET", "GET", "POST", "HEAD", "PUT"}).Draw(t, lb+"m"),
		Path: rapid.SampledFrom(reqPaths).Draw(t, lb+"p"),
		AE:   rapid.SampledFrom([]string{"-", "gzip", "identity"}).Draw(t, lb+"ae"),
		Evil: rapid.SampledFrom(evils).Draw(t, lb+"evil")}
	s := probe.Script{Header: map[string][]string{}}
	if rapid.IntRange(0, 2).Draw(t, lb+"k") == 0 {
		r.Kind = "error-nowrite"
		s.NoWrite = true
		s.Ret = rapid.SampledFrom([]int{400, 403, 404, 500, 502}).Draw(t, lb+"ret")
		if rapid.Bool().Draw(t, lb+"err") {
			s.Err = rapid.SampledFrom([]string{"scripted", "scripted", "context.Canceled", "io.EOF", "os.ErrPermission"}).Draw(t, lb+"errv")
		}
	} else {
		r.Kind = "written"
		s.Status = rapid.SampledFrom([]int{200, 200, 201, 204, 301, 404, 500}).Draw(t, lb+"st")
		s.Header["Content-Type"] = []string{"text/plain; charset=utf-8"}
		if s.Status == 301 {
			s.Header["Location"] = []string{"/x"}
		}
		if s.Status != 204 {
			n := rapid.IntRange(0, 3).Draw(t, lb+"n")
			for i := 0; i < n; i++ {
				sz := rapid.SampledFrom([]int{0, 1, 100, 3000}).Draw(t, fmt.Sprintf("%sc%d", lb, i))
				s.Chunks = append(s.Chunks, []byte(strings.Repeat("body text ", sz/10+1))[:sz])
				s.Flush = append(s.Flush, rapid.IntRange(0, 3).Draw(t, fmt.Sprintf("%sf%d", lb, i)) == 0)
			}
		}
	}
	if r.Kind == "written" && s.Status != 0 && rapid.IntRange(0, 5).Draw(t, lb+"early") == 0 {
		s.Early = 103 // Early Hints first; the logged status is that of the final response
	}
	if r.Kind == "written" {
		s.Copy = rapid.IntRange(0, 2).Draw(t, lb+"copy") == 0 // the body is sent with io.Copy, as a file would be
	}
	r.Script = s
	return r
}

func genCase(t *rapid.T) *Case {
	c := &Case{CaseSensitive: rapid.IntRange(0, 3).Draw(t, "cs") == 0, H2: rapid.IntRange(0, 3).Draw(t, "h2") == 0}
	nl := rapid.IntRange(1, 3).Draw(t, "nlogs")
	for i := 0; i < nl; i++ {
		lb := fmt.Sprintf("l%d", i)
		l := LogDir{Scope: rapid.SampledFrom(scopes).Draw(t, lb+"s"), Fmt: rapid.IntRange(0, len(formats)-1).Draw(t, lb+"f")}
		if rapid.IntRange(0, 2).Draw(t, lb+"ex") == 0 {
			l.Except = []string{rapid.SampledFrom([]string{"/api/v1", "/static", "/p/x", "/other"}).Draw(t, lb+"exp")}
		}
		c.Logs = append(c.Logs, l)
	}
	var wn []string
	for k := range wrapperText {
		wn = append(wn, k)
	}
	sort.Strings(wn)
	picked := rapid.SliceOfNDistinct(rapid.SampledFrom(wn), 0, 4, func(s string) string { return s }).Draw(t, "wrappers")
	hasErr, hasRw := false, false
	for _, w := range picked {
		if w == "errors" || w == "errpage" {
			if hasErr {
				continue
			}
			hasErr = true
		}
		if strings.HasPrefix(w, "rewrite") {
			if hasRw {
				continue
			}
			hasRw = true
		}
		c.Wrappers = append(c.Wrappers, w)
	}
	sort.Strings(c.Wrappers)
	c.Clients = rapid.IntRange(1, 8).Draw(t, "clients")
	n := rapid.IntRange(4, 20).Draw(t, "nreq")
	for i := 0; i < n; i++ {
		c.Reqs = append(c.Reqs, genReq(t, fmt.Sprintf("r%d", i)))
	}
	return c
}

func TestLogs(t *testing.T) {
	if vt.ReplayPath() != "" {
		t.Skip("replay mode")
	}
	rapid.Check(t, func(t *rapid.T) {
		c := genCase(t)
		nt, err := runCase(c)
		classes := []string{fmt.Sprintf("logs=%d", len(c.Logs)), fmt.Sprintf("clients>1=%v", c.Clients > 1)}
		vt.Record("logs", c, nt > 0, classes...)
		vt.Extra("logs", "requests", len(c.Reqs))
		vt.Extra("logs", "nontrivial_requests", nt)
		vt.Check(t, "logs", c, err)
	})
}

// ---------------------------------------------------------------------------
// (B) Replace directly: total, single pass, independent model

type Piece struct {
	Kind string `json:"kind"` // lit | esc-open | esc-close | ph
	Text string `json:"text"`
}

type ReplCase struct {
	Pieces  []Piece           `json:"pieces"`
	Method  string            `json:"method"`
	Target  string            `json:"target"`
	Host    string            `json:"host"`
	Headers map[string]string `json:"headers"`
	Cookies map[string]string `json:"cookies"`
	Tail    string            `json:"tail"` // "", "{", "{unterminated"
}

func (c *ReplCase) format() string {
	var sb strings.Builder
	for _, p := range c.Pieces {
		switch p.Kind {
		case "lit":
			sb.WriteString(p.Text)
		case "esc-open":
			sb.WriteString(`\{`)
		case "esc-close":
			sb.WriteString(`\}`)
		case "ph":
			sb.WriteString("{" + p.Text + "}")
		}
	}
	sb.WriteString(c.Tail)
	return sb.String()
}

func (c *ReplCase) request() (*http.Request, error) {
	r, err := http.NewRequest(c.Method, "http://"+c.Host+c.Target, nil)
	if err != nil {
		return nil, err
	}
	r.Host = c.Host
	for k, v := range c.Headers {
		r.Header.Set(k, v)
	}
	var names []string
	for k := range c.Cookies {
		names = append(names, k)
	}
	sort.Strings(names)
	for _, k := range names {
		r.AddCookie(&http.Cookie{Name: k, Value: c.Cookies[k]})
	}
	r.RemoteAddr = "192.0.2.7:4711"
	r.Proto = "HTTP/1.1"
	r = r.WithContext(context.WithValue(r.Context(), httpserver.OriginalURLCtxKey, *r.URL))
	return r, nil
}

// model: one pass over the pieces; values are inserted verbatim
func (c *ReplCase) model(r *http.Request) string {
	const empty = "-"
	var sb strings.Builder
	for _, p := range c.Pieces {
		switch p.Kind {
		case "lit":
			sb.WriteString(p.Text)
		case "esc-open":
			sb.WriteString("{")
		case "esc-close":
			sb.WriteString("}")
		case "ph":
			k := p.Text
			switch {
			case strings.HasPrefix(k, ">"):
				found := false
				for hk, hv := range r.Header {
					if strings.EqualFold(hk, k[1:]) {
						sb.WriteString(strings.Join(hv, ","))
						found = true
					}
				}
				if !found {
					sb.WriteString(empty)
				}
			case strings.HasPrefix(k, "~"):
				if ck, err := r.Cookie(k[1:]); err == nil {
					sb.WriteString(ck.Value)
				} else {
					sb.WriteString(empty)
				}
			case strings.HasPrefix(k, "?"):
				sb.WriteString(r.URL.Query().Get(k[1:]))
			case k == "method":
				sb.WriteString(r.Method)
			case k == "host":
				sb.WriteString(r.Host)
			case k == "hostonly":
				h := r.Host
				if i := strings.LastIndex(h, ":"); i >= 0 {
					h = h[:i]
				}
				sb.WriteString(h)
			case k == "proto":
				sb.WriteString("HTTP/1.1")
			case k == "scheme":
				sb.WriteString("http")
			case k == "path":
				sb.WriteString(r.URL.Path)
			case k == "query":
				sb.WriteString(r.URL.RawQuery)
			case k == "uri":
				sb.WriteString(r.URL.RequestURI())
			case k == "remote":
				sb.WriteString("192.0.2.7")
			case k == "port":
				sb.WriteString("4711")
			case k == "status", k == "size", k == "latency":
				sb.WriteString(empty) // no response recorder
			default:
				sb.WriteString(empty)
			}
		}
	}
	sb.WriteString(c.Tail)
	return sb.String()
}

func runRepl(c *ReplCase) (bool, error) {
	r, err := c.request()
	if err != nil {
		return false, fmt.Errorf("HARNESS: %v", err)
	}
	format := c.format()
	want := c.model(r)
	var got string
	var pan interface{}
	func() {
		defer func() { pan = recover() }()
		got = httpserver.NewReplacer(r, nil, "-").Replace(format)
	}()
	nontrivial := false
	for _, v := range c.Headers {
		if strings.ContainsAny(v, "{}") {
			nontrivial = true
		}
	}
	for _, v := range c.Cookies {
		if strings.ContainsAny(v, "{}") {
			nontrivial = true
		}
	}
	if strings.ContainsAny(c.Target, "{}") {
		nontrivial = true
	}
	if pan != nil {
		return nontrivial, fmt.Errorf("Replace(%q) panicked: %v", format, pan)
	}
	if got != want {
		return nontrivial, fmt.Errorf("Replace(%q) = %q, single-pass model gives %q (request %s %s headers %v cookies %v)", format, got, want, c.Method, c.Target, c.Headers, c.Cookies)
	}
	return nontrivial, nil
}

var litTexts = []string{"a", " ", "-", "x=y", "[", "]", "\"", "%", "::", "ü", "$", "status", ">X", "0"}
var phNames = []string{"method", "host", "hostonly", "proto", "scheme", "path", "query", "uri", "remote", "port", ">X-A", ">x-a", ">X-B", ">Missing", "~sid", "~nope", "?q", "?r", "?zz", "nosuch", "status", "size", "", ">", "~", "?", "label0", "labelx", "Method", " method"}
var hostileVals = []string{"plain", "{status}", "{method}", "{>X-B}", "{~sid}", `\{`, `\}`, "{", "}", "}{", "{{}}", "{?q}", "a{b}c", `\`, "{nosuch}", "%7Bmethod%7D"}
var targets = []string{"/", "/a/b", "/a?q=1", "/a?q={method}&r=%7Bhost%7D", "/%7Bmethod%7D/x", "/a/{path}", "/x?q=\\{&r=}", "/?zz={>X-A}"}

func genRepl(t *rapid.T) *ReplCase {
	c := &ReplCase{Method: rapid.SampledFrom([]string{"GET", "POST", "{method}"}).Draw(t, "method"), Host: rapid.SampledFrom([]string{"example.com", "example.com:8080", "a.b.c"}).Draw(t, "host"),
		Target: rapid.SampledFrom(targets).Draw(t, "target"), Headers: map[string]string{}, Cookies: map[string]string{}}
	if c.Method == "{method}" {
		c.Method = "GET"
	}
	if rapid.Bool().Draw(t, "ha") {
		c.Headers["X-A"] = rapid.SampledFrom(hostileVals).Draw(t, "hav")
	}
	if rapid.Bool().Draw(t, "hb") {
		c.Headers["X-B"] = rapid.SampledFrom(hostileVals).Draw(t, "hbv")
	}
	if rapid.Bool().Draw(t, "ck") {
		v := rapid.SampledFrom([]string{"abc", "{status}", "{method}", "x{y}z", "{>X-A}"}).Draw(t, "ckv")
		c.Cookies["sid"] = v
	}
	n := rapid.IntRange(0, 8).Draw(t, "npieces")
	for i := 0; i < n; i++ {
		lb := fmt.Sprintf("p%d", i)
		switch rapid.IntRange(0, 9).Draw(t, lb+"k") {
		case 0, 1, 2:
			c.Pieces = append(c.Pieces, Piece{Kind: "lit", Text: rapid.SampledFrom(litTexts).Draw(t, lb+"t")})
		case 3:
			c.Pieces = append(c.Pieces, Piece{Kind: "esc-open"})
		case 4:
			c.Pieces = append(c.Pieces, Piece{Kind: "esc-close"})
		default:
			c.Pieces = append(c.Pieces, Piece{Kind: "ph", Text: rapid.SampledFrom(phNames).Draw(t, lb+"n")})
		}
	}
	c.Tail = rapid.SampledFrom([]string{"", "", "", "{", "{unterminated", " tail"}).Draw(t, "tail")
	return c
}

func TestReplace(t *testing.T) {
	if vt.ReplayPath() != "" {
		t.Skip("replay mode")
	}
	rapid.Check(t, func(t *rapid.T) {
		c := genRepl(t)
		nt, err := runRepl(c)
		vt.Record("replace", c, nt)
		vt.Check(t, "replace", c, err)
	})
}

func replayCase(rf *vt.ReplayFile) error {
	switch rf.Sub {
	case "logs":
		var c Case
		if err := vt.Decode(rf, &c); err != nil {
			return err
		}
		_, err := runCase(&c)
		return err
	case "replace":
		var c ReplCase
		if err := vt.Decode(rf, &c); err != nil {
			return err
		}
		_, err := runRepl(&c)
		return err
	}
	return fmt.Errorf("HARNESS: unknown sub %q", rf.Sub)
}

func TestReplay(t *testing.T) { vt.RunReplay(t, replayCase) }
func TestCorpus(t *testing.T) { vt.RunCorpus(t, replayCase) }
