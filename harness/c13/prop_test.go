package c13

import (
	"bytes"
	"fmt"
	"net/url"
	"os"
	"path/filepath"
	"sort"
	"strings"
	"sync"
	"sync/atomic"
	"testing"

	"pgregory.net/rapid"

	"verif/harness/internal/fcgiref"
	"verif/harness/internal/srv"
	"verif/harness/internal/vt"
)

func TestMain(m *testing.M) {
	vt.Property = "C13"
	vt.Main(m)
}

var (
	once   sync.Once
	root   string
	sock   string
	ref    *fcgiref.Server
	tcpRef *fcgiref.Server
)

const phpToken = "TOKPHPSOURCE-must-never-be-served-as-text"

func setup() {
	once.Do(func() {
		root = filepath.Join(vt.WorkDir, "c13root")
		os.MkdirAll(filepath.Join(root, "app", "sub"), 0o755)
		os.WriteFile(filepath.Join(root, "app", "info.php"), []byte("<?php /* "+phpToken+" */ phpinfo();\n"), 0o644)
		os.WriteFile(filepath.Join(root, "app", "index.php"), []byte("<?php /* "+phpToken+" index */\n"), 0o644)
		os.WriteFile(filepath.Join(root, "app", "sub", "index.php"), []byte("<?php /* "+phpToken+" sub index */\n"), 0o644)
		os.WriteFile(filepath.Join(root, "app", "style.css"), []byte("body{}/*static css*/\n"), 0o644)
		sock = filepath.Join(vt.WorkDir, "f.sock")
		var err error
		if ref, err = fcgiref.Listen("unix", sock); err != nil {
			panic(err)
		}
		if tcpRef, err = fcgiref.Listen("tcp", "127.0.0.1:0"); err != nil {
			panic(err)
		}
	})
}

// ---------------------------------------------------------------------------

type RuleCfg struct {
	TCP    bool        `json:"tcp"`
	Preset bool        `json:"preset"` // "php" preset instead of ext/split/index
	Env    [][2]string `json:"env"`
	Except string      `json:"except,omitempty"`
	// Before: another fastcgi rule is written first, for the whole site and another extension (.pl, to a
	// backend nobody listens on); its base path matches every request, its split string none of ours
	Before bool `json:"before,omitempty"`
	// Ext: how the Casketfile spells the extension and split string of a non-preset rule (".php" when
	// empty; ".PHP", ".Php" — the statement says "the rule's extension (in any letter case)")
	Ext string `json:"ext,omitempty"`
}

type Req struct {
	Method  string         `json:"method"`
	Target  string         `json:"target"`
	Header  [][2]string    `json:"header"`
	BodyLen int            `json:"body_len"`
	CType   string         `json:"ctype"`
	Chunked bool           `json:"chunked,omitempty"` // the request body uses chunked framing (no Content-Length)
	Script  fcgiref.Script `json:"script"`
	Status  int            `json:"status"`  // status the responder announces (0 = no Status header)
	RHeader [][2]string    `json:"rheader"` // responder headers
}

type Case struct {
	Rule RuleCfg `json:"rule"`
	Reqs []Req   `json:"reqs"`
}

func casketfile(c *Case, dir string) string {
	setup()
	addr := "unix:" + sock
	if c.Rule.TCP {
		addr = tcpRef.Addr().String()
	}
	var sb strings.Builder
	fmt.Fprintf(&sb, "http://localhost:0 {\n\troot %s\n\terrors %s/errors.log\n", root, dir)
	if c.Rule.Before {
		sb.WriteString("\tfastcgi / 127.0.0.1:9 {\n\t\text .pl\n\t\tsplit .pl\n\t}\n")
	}
	if c.Rule.Preset && len(c.Rule.Env) == 0 && c.Rule.Except == "" {
		fmt.Fprintf(&sb, "\tfastcgi /app %s php\n", addr)
	} else {
		if c.Rule.Preset {
			fmt.Fprintf(&sb, "\tfastcgi /app %s php {\n", addr)
		} else {
			ext := c.Rule.Ext
			if ext == "" {
				ext = ".php"
			}
			fmt.Fprintf(&sb, "\tfastcgi /app %s {\n\t\text %s\n\t\tsplit %s\n\t\tindex index.php\n", addr, ext, ext)
		}
		for _, kv := range c.Rule.Env {
			fmt.Fprintf(&sb, "\t\tenv %s \"%s\"\n", kv[0], kv[1])
		}
		if c.Rule.Except != "" {
			fmt.Fprintf(&sb, "\t\texcept %s\n", c.Rule.Except)
		}
		sb.WriteString("\t}\n")
	}
	sb.WriteString("}\n")
	return sb.String()
}

func reqBody(n int) []byte {
	b := make([]byte, n)
	for i := range b {
		b[i] = byte('A' + (i*11+i/997)%26)
	}
	return b
}

var seq int64

// indexFold: first case-insensitive occurrence of sub in s, as a byte offset into s
func indexFold(s, sub string) int {
	for i := 0; i+len(sub) <= len(s); i++ {
		if strings.EqualFold(s[i:i+len(sub)], sub) {
			return i
		}
	}
	return -1
}

func runCase(c *Case) (nontrivial int, err error) {
	setup()
	dir := filepath.Join(vt.WorkDir, fmt.Sprintf("c13-%d", atomic.AddInt64(&seq, 1)))
	os.MkdirAll(dir, 0o755)
	defer os.RemoveAll(dir)
	cf := casketfile(c, dir)
	inst, e := srv.Start(cf, "")
	if e != nil {
		srv.Stop(inst)
		return 0, fmt.Errorf("HARNESS: start: %v\n%s", e, cf)
	}
	stopped := false
	defer func() {
		if !stopped {
			srv.Stop(inst)
		}
	}()
	addr := srv.Loopback(srv.Addrs(inst)[0])
	responder := ref
	if c.Rule.TCP {
		responder = tcpRef
	}
	var stderrWanted []string
	var verified []int // exchanges answered by the responder with a body that arrived intact
	for i, r := range c.Reqs {
		id := fmt.Sprintf("f%d", atomic.AddInt64(&seq, 1))
		sc := r.Script
		hdr := [][2]string{{"X-Fcgi-Id", id}, {"X-Fcgi-Script", fcgiref.EncodeScript(&sc)}, {"Connection", "close"}}
		hdr = append(hdr, r.Header...)
		var body []byte
		if r.BodyLen > 0 || r.Method == "POST" || r.Method == "PUT" {
			body = reqBody(r.BodyLen)
			if r.CType != "" {
				hdr = append(hdr, [2]string{"Content-Type", r.CType})
			}
		}
		raw := srv.Request(r.Method, r.Target, "localhost", hdr, body)
		if r.Chunked && body != nil {
			var cb bytes.Buffer
			cb.Write(srv.Request(r.Method, r.Target, "localhost", append(hdr, [2]string{"Transfer-Encoding", "chunked"}), nil))
			for off := 0; off < len(body); off += 5000 {
				end := min(off+5000, len(body))
				fmt.Fprintf(&cb, "%x\r\n", end-off)
				cb.Write(body[off:end])
				cb.WriteString("\r\n")
			}
			cb.WriteString("0\r\n\r\n")
			raw = cb.Bytes()
		}
		resp, e := srv.Once(addr, r.Method, raw)
		seen := responder.Take(id)
		desc := fmt.Sprintf("request %d %s %s (body %d, %d headers) rule %+v script{head %q body %d cuts %v pad %v stderr %v@%v}", i, r.Method, r.Target, r.BodyLen, len(r.Header), c.Rule, clipS(sc.Head), sc.BodyLen, sc.Cuts, sc.Padding, sc.Stderr, sc.StderrAt)
		u, perr := url.ParseRequestURI(r.Target)
		if perr != nil {
			continue
		}
		// does the model route this request to the responder?
		fpath := strings.TrimRight(u.Path, " .")
		underRule := strings.HasPrefix(strings.ToLower(u.Path), "/app")
		if c.Rule.Except != "" && strings.HasPrefix(strings.ToLower(u.Path), strings.ToLower("/app"+c.Rule.Except)) {
			underRule = false
		}
		isDir := strings.HasSuffix(fpath, "/") || fpath == "/app"
		hasSplit := indexFold(fpath, ".php") >= 0
		wantFcgi := underRule && (hasSplit || isDir)
		if e != nil {
			return nontrivial, fmt.Errorf("%s: no well-formed response: %v", desc, e)
		}
		// static text must never leak the script source
		if bytes.Contains(resp.Body, []byte(phpToken)) {
			return nontrivial, fmt.Errorf("%s: the response contains the source text of a script file (status %d)", desc, resp.Status)
		}
		if !wantFcgi {
			continue
		}
		if isDir && !hasSplit {
			// index substitution: /app/ -> /app/index.php
			idx := strings.TrimSuffix(fpath, "/") + "/index.php"
			if _, err := os.Stat(filepath.Join(root, filepath.FromSlash(idx))); err != nil {
				continue
			}
			fpath = idx
		}
		crossing := r.BodyLen >= 65499 || sc.BodyLen+len(sc.Head) > 65535 || len(sc.Cuts) > 1 || len(sc.Stderr) > 0 || len(sc.StderrLate) > 0 || sc.Burst > 0
		for _, kv := range r.Header {
			if len(kv[0]) >= 120 || len(kv[1]) >= 127 {
				crossing = true
			}
		}
		if crossing {
			nontrivial++
		}
		if seen == nil {
			return nontrivial, fmt.Errorf("%s: the responder was never invoked (client got %d %q)", desc, resp.Status, clipS(string(resp.Body)))
		}
		if len(seen.ProtoErrors) > 0 {
			return nontrivial, fmt.Errorf("%s: the responder saw protocol errors: %v (PARAMS records %v, STDIN records %v)", desc, seen.ProtoErrors, seen.ParamRecords, seen.StdinRecords)
		}
		if seen.Role != 1 {
			return nontrivial, fmt.Errorf("%s: BEGIN_REQUEST role %d, want responder (1)", desc, seen.Role)
		}
		for _, n := range append(append([]int{}, seen.ParamRecords...), seen.StdinRecords...) {
			if n > 65535 {
				return nontrivial, fmt.Errorf("%s: record of %d bytes", desc, n)
			}
		}
		// --- params: CGI reference model ---
		want := map[string]string{}
		pos := indexFold(fpath, ".php")
		if pos < 0 {
			return nontrivial, fmt.Errorf("HARNESS: model cannot split %q", fpath)
		}
		docURI := fpath[:pos+4]
		pathInfo := fpath[pos+4:]
		scriptName := strings.TrimSuffix(fpath, pathInfo)
		want["SCRIPT_NAME"] = scriptName
		want["PATH_INFO"] = pathInfo
		want["DOCUMENT_URI"] = docURI
		want["SCRIPT_FILENAME"] = filepath.Join(root, scriptName)
		want["DOCUMENT_ROOT"] = root
		want["QUERY_STRING"] = u.RawQuery
		want["REQUEST_METHOD"] = r.Method
		want["REMOTE_ADDR"] = "127.0.0.1"
		want["GATEWAY_INTERFACE"] = "CGI/1.1"
		want["SERVER_PROTOCOL"] = "HTTP/1.1"
		want["REQUEST_URI"] = u.RequestURI()
		want["HTTP_HOST"] = "localhost"
		if body != nil {
			want["CONTENT_LENGTH"] = fmt.Sprint(len(body))
			if r.Chunked {
				// the statement quantifies over body sizes, not framings: with chunked
				// framing the length is not known up front and casket announces 0;
				// no verdict on this one variable, the stdin bytes are still compared
				delete(want, "CONTENT_LENGTH")
			}
			if r.CType != "" && r.Method != "GET" && r.Method != "HEAD" {
				want["CONTENT_TYPE"] = r.CType
			}
		}
		hm := map[string][]string{}
		var order []string
		for _, kv := range r.Header {
			k := "HTTP_" + strings.ToUpper(strings.NewReplacer("-", "_", " ", "_").Replace(kv[0]))
			if _, ok := hm[k]; !ok {
				order = append(order, k)
			}
			hm[k] = append(hm[k], kv[1])
		}
		for _, k := range order {
			want[k] = strings.Join(hm[k], ", ")
		}
		for _, kv := range c.Rule.Env {
			want[kv[0]] = strings.ReplaceAll(strings.ReplaceAll(kv[1], "{method}", r.Method), "{host}", "localhost")
		}
		var keys []string
		for k := range want {
			keys = append(keys, k)
		}
		sort.Strings(keys)
		for _, k := range keys {
			got, ok := seen.Params[k]
			if !ok {
				return nontrivial, fmt.Errorf("%s: CGI variable %s missing at the responder (want %q); %d params received", desc, k, clipS(want[k]), len(seen.Params))
			}
			if got != want[k] {
				return nontrivial, fmt.Errorf("%s: CGI variable %s = %q (len %d), want %q (len %d)", desc, k, clipS(got), len(got), clipS(want[k]), len(want[k]))
			}
		}
		if len(seen.DupParams) > 0 {
			return nontrivial, fmt.Errorf("%s: parameters sent twice: %v", desc, seen.DupParams)
		}
		// --- stdin ---
		wantIn := body
		if r.Method == "HEAD" {
			wantIn = nil
		}
		if !bytes.Equal(seen.Stdin, wantIn) {
			return nontrivial, fmt.Errorf("%s: responder received %d stdin bytes (equal prefix=%v), want %d", desc, len(seen.Stdin), bytes.HasPrefix(wantIn, seen.Stdin), len(wantIn))
		}
		// --- response ---
		wantStatus := r.Status
		if wantStatus == 0 {
			wantStatus = 200
		}
		if resp.Status != wantStatus {
			return nontrivial, fmt.Errorf("%s: responder announced status %d, client got %d (%q)", desc, wantStatus, resp.Status, clipS(string(resp.Body)))
		}
		if r.Method != "HEAD" && wantStatus != 204 && wantStatus != 304 {
			wb := fcgiref.BodySalted(sc.BodyLen, sc.Salt)
			if !bytes.Equal(resp.Body, wb) {
				return nontrivial, fmt.Errorf("%s: responder wrote %d body bytes, client got %d (common prefix %d)", desc, len(wb), len(resp.Body), commonPrefix(wb, resp.Body))
			}
			if sc.BodyLen > 0 && r.Method == "GET" {
				verified = append(verified, i)
			}
		}
		for _, kv := range r.RHeader {
			found := false
			for _, v := range resp.Header.Values(kv[0]) {
				if v == kv[1] {
					found = true
				}
			}
			if !found {
				return nontrivial, fmt.Errorf("%s: responder header %s: %q missing in the response (got %q)", desc, kv[0], kv[1], resp.Header.Values(kv[0]))
			}
		}
		stderrTexts := append(append([]string{}, sc.Stderr...), sc.StderrLate...)
		if sc.Burst > 0 && sc.BurstAt < recordCount(&sc) {
			stderrTexts = append(stderrTexts, fmt.Sprintf("%s #%d", sc.BurstText, sc.Burst-1))
		}
		for _, se := range stderrTexts {
			if bytes.Contains(resp.Body, []byte(se)) {
				return nontrivial, fmt.Errorf("%s: stderr text %q appears in the response body", desc, se)
			}
			for _, vv := range resp.Header {
				for _, v := range vv {
					if strings.Contains(v, se) {
						return nontrivial, fmt.Errorf("%s: stderr text %q appears in a response header", desc, se)
					}
				}
			}
			stderrWanted = append(stderrWanted, se)
		}
	}
	// the exchanges that carried a body once more, several at a time and with different
	// bodies of the same lengths: every client must get its own responder's bytes
	if len(verified) > 0 {
		var wg sync.WaitGroup
		cerr := make(chan error, 8)
		for g := 0; g < 6; g++ {
			wg.Add(1)
			go func(g int) {
				defer wg.Done()
				for k := range verified {
					r := c.Reqs[verified[(k+g)%len(verified)]]
					sc := r.Script
					sc.Salt = 1 + g*4 + k%4
					sc.Stderr, sc.StderrAt, sc.Burst, sc.StderrLate = nil, nil, 0, nil
					id := fmt.Sprintf("f%d", atomic.AddInt64(&seq, 1))
					hdr := [][2]string{{"X-Fcgi-Id", id}, {"X-Fcgi-Script", fcgiref.EncodeScript(&sc)}, {"Connection", "close"}}
					resp, e := srv.Once(addr, "GET", srv.Request("GET", r.Target, "localhost", hdr, nil))
					responder.Take(id)
					if e != nil {
						continue
					}
					if wb := fcgiref.BodySalted(sc.BodyLen, sc.Salt); !bytes.Equal(resp.Body, wb) {
						select {
						case cerr <- fmt.Errorf("GET %s with 5 other FastCGI requests in flight: responder wrote %d body bytes, client got %d that differ from byte %d on (bytes of another response?)", r.Target, len(wb), len(resp.Body), commonPrefix(wb, resp.Body)):
						default:
						}
						return
					}
				}
			}(g)
		}
		wg.Wait()
		select {
		case err := <-cerr:
			return nontrivial, err
		default:
		}
	}
	// stderr goes to the error log (read after the drain barrier)
	srv.Stop(inst)
	stopped = true
	if len(stderrWanted) > 0 {
		logb, _ := os.ReadFile(filepath.Join(dir, "errors.log"))
		for _, se := range stderrWanted {
			if !bytes.Contains(logb, []byte(se)) {
				return nontrivial, fmt.Errorf("stderr text %q of the responder is not in the error log (%d bytes: %q)", se, len(logb), clipS(string(logb)))
			}
		}
	}
	return nontrivial, nil
}

// recordCount: number of stdout data records the script produces
func recordCount(sc *fcgiref.Script) int {
	total := len(sc.Head) + sc.BodyLen
	n := 0
	for i := 0; total > 0; i++ {
		c := 65535
		if len(sc.Cuts) > 0 {
			c = sc.Cuts[i%len(sc.Cuts)]
		}
		if c <= 0 {
			c = 1
		}
		if c > 65535 {
			c = 65535
		}
		total -= c
		n++
	}
	return n
}

func commonPrefix(a, b []byte) int {
	n := 0
	for n < len(a) && n < len(b) && a[n] == b[n] {
		n++
	}
	return n
}

func clipS(s string) string {
	if len(s) > 70 {
		return s[:70] + fmt.Sprintf("...(%d bytes)", len(s))
	}
	return s
}

// ---------------------------------------------------------------------------

var targets = []string{"/app/info.php", "/app/info.php/extra/path", "/app/info.PHP", "/app/INFO.php", "/app/info.pHp/x", "/app/info.php?a=1&b=c%20d", "/app/", "/app/sub/", "/app/other.php", "/app/dir.php/file.php/z", "/app/info.php.", "/app/info.php%20", "/app/info.php%20.%20", "/app/x.php?", "/app/%C3%A9.php/%C3%A9", "/app/a%20b.php/c%2Fd", "/app/style.css", "/app/static/x.php", "/APP/info.php", "/app/info.php/", "/app/%C4%B0.php/x", "/app/%C8%BA%C8%BA%C8%BA%C8%BA.php", "/app/%E2%84%AA.php/pi", "/app/%C4%B0%C4%B0.php", "/app/%E2%84%AA%E2%84%AA%E2%84%AA.php/a.php",
	// letters whose lower-case forms are shorter and longer in UTF-8, on both sides of the split string
	"/app/%C4%B0.php/%C8%BA", "/app/%C8%BA.php/%C4%B0", "/app/%C4%B0%C8%BA.php/%C8%BA%C4%B0", "/app/%C8%BA%C4%B0.php/x/%C4%B0"}

func nameOfLen(n int, seed int) string {
	b := []byte("X-")
	for len(b) < n {
		b = append(b, byte('a'+(len(b)+seed)%26))
	}
	return string(b[:n])
}

func valOfLen(n int, seed int) string {
	b := make([]byte, n)
	for i := range b {
		b[i] = byte('0' + (i+seed)%10)
	}
	return string(b)
}

func genReq(t *rapid.T, lb string) Req {
	r := Req{Method: rapid.SampledFrom([]string{"GET", "POST", "POST", "PUT", "HEAD", "DELETE"}).Draw(t, lb+"m"), Target: rapid.SampledFrom(targets).Draw(t, lb+"t")}
	nh := rapid.IntRange(0, 5).Draw(t, lb+"nh")
	used := map[string]bool{}
	joined := map[string]int{}
	for i := 0; i < nh; i++ {
		hl := fmt.Sprintf("%sh%d", lb, i)
		var name string
		switch rapid.IntRange(0, 3).Draw(t, hl+"k") {
		case 0:
			name = nameOfLen(rapid.SampledFrom([]int{118, 121, 122, 123, 124, 125, 130, 200}).Draw(t, hl+"nl"), i) // HTTP_ prefix adds 5: lengths around 127/128
		default:
			name = rapid.SampledFrom([]string{"X-A", "X-B", "Accept", "Cookie", "X-Mixed-Case", "x-lower"}).Draw(t, hl+"n")
		}
		key := strings.ToUpper(strings.ReplaceAll(name, "-", "_"))
		vl := rapid.SampledFrom([]int{0, 1, 5, 126, 127, 128, 129, 300, 4000, 60000}).Draw(t, hl+"vl")
		if vl == 60000 && used["big"] {
			vl = 300
		}
		if vl == 60000 {
			used["big"] = true
		}
		if used[key] && rapid.Bool().Draw(t, hl+"rep") == false {
			continue
		}
		used[key] = true
		// the lines of one field are joined into one CGI variable: keep name + joined value inside a record
		joined[key] += vl + 2
		if joined[key]+len(key)+5 > 65000 {
			joined[key] -= vl + 2
			continue
		}
		r.Header = append(r.Header, [2]string{name, valOfLen(vl, i)})
	}
	if r.Method == "POST" || r.Method == "PUT" {
		r.BodyLen = rapid.SampledFrom([]int{0, 1, 100, 65499, 65500, 65501, 130999, 131000, 131001, 200000}).Draw(t, lb+"bl")
		r.CType = rapid.SampledFrom([]string{"", "application/x-www-form-urlencoded", "application/json"}).Draw(t, lb+"ct")
		r.Chunked = rapid.IntRange(0, 4).Draw(t, lb+"chk") == 0
	}
	// responder script
	r.Status = rapid.SampledFrom([]int{0, 0, 200, 201, 404, 500, 302}).Draw(t, lb+"st")
	var head strings.Builder
	if r.Status != 0 {
		fmt.Fprintf(&head, "Status: %d %s\r\n", r.Status, "Reason Text")
	}
	head.WriteString("Content-Type: text/html; charset=utf-8\r\n")
	if r.Status == 302 {
		r.RHeader = append(r.RHeader, [2]string{"Location", "/elsewhere"})
	}
	nrh := rapid.IntRange(0, 3).Draw(t, lb+"nrh")
	for i := 0; i < nrh; i++ {
		kv := [2]string{rapid.SampledFrom([]string{"X-Powered-By", "Set-Cookie", "X-R", "Cache-Control"}).Draw(t, fmt.Sprintf("%srk%d", lb, i)), rapid.SampledFrom([]string{"PHP/8", "a=b; Path=/", "v", valOfLen(300, i)}).Draw(t, fmt.Sprintf("%srv%d", lb, i))}
		r.RHeader = append(r.RHeader, kv)
	}
	for _, kv := range r.RHeader {
		fmt.Fprintf(&head, "%s: %s\r\n", kv[0], kv[1])
	}
	head.WriteString("\r\n")
	sc := fcgiref.Script{Head: head.String()}
	sc.BodyLen = rapid.SampledFrom([]int{0, 1, 50, 8000, 65000, 65535, 65536, 140000}).Draw(t, lb+"rbl")
	if r.Method == "HEAD" {
		sc.BodyLen = 0 // a conforming responder sends no body for HEAD
	}
	sc.Cuts = rapid.SliceOfN(rapid.SampledFrom([]int{1, 2, 7, 8, 100, 4096, 65535, 30000}), 1, 4).Draw(t, lb+"cuts")
	if rapid.Bool().Draw(t, lb+"pad") {
		sc.Padding = rapid.SliceOfN(rapid.SampledFrom([]int{0, 1, 7, 8, 255}), 1, 3).Draw(t, lb+"pads")
	}
	if sc.BodyLen > 8000 {
		// keep the number of records bounded
		for i := range sc.Cuts {
			if sc.Cuts[i] < 100 {
				sc.Cuts[i] = 100 + sc.Cuts[i]
			}
		}
	}
	ns := rapid.IntRange(0, 2).Draw(t, lb+"ns")
	for i := 0; i < ns; i++ {
		sc.Stderr = append(sc.Stderr, fmt.Sprintf("PHP-Notice-%s-%d-unique-stderr-text", lb, rapid.IntRange(0, 1<<30).Draw(t, fmt.Sprintf("%sse%d", lb, i))))
		sc.StderrAt = append(sc.StderrAt, rapid.SampledFrom([]int{0, 1, 2, 3, 1000}).Draw(t, fmt.Sprintf("%ssa%d", lb, i)))
	}
	if rapid.IntRange(0, 4).Draw(t, lb+"late") == 0 {
		// a responder that reports trouble after it has closed stdout (shutdown handlers, destructors)
		sc.StderrLate = []string{fmt.Sprintf("PHP-Late-%s-%d-unique-stderr-text", lb, rapid.IntRange(0, 1<<30).Draw(t, lb+"lse"))}
	}
	if rapid.IntRange(0, 5).Draw(t, lb+"burst") == 0 {
		sc.Burst = rapid.SampledFrom([]int{50, 99, 100, 101, 300, 1000}).Draw(t, lb+"bn")
		sc.BurstAt = rapid.SampledFrom([]int{0, 0, 1, 2}).Draw(t, lb+"ba")
		sc.BurstText = fmt.Sprintf("burst-notice-%s-%d", lb, rapid.IntRange(0, 1<<30).Draw(t, lb+"bt"))
	}
	r.Script = sc
	return r
}

func genCase(t *rapid.T) *Case {
	c := &Case{}
	c.Rule.TCP = rapid.IntRange(0, 3).Draw(t, "tcp") == 0
	c.Rule.Preset = rapid.Bool().Draw(t, "preset")
	c.Rule.Before = rapid.IntRange(0, 2).Draw(t, "before") == 0
	if !c.Rule.Preset {
		c.Rule.Ext = rapid.SampledFrom([]string{"", "", ".PHP", ".Php", ".pHP"}).Draw(t, "ext")
	}
	if rapid.Bool().Draw(t, "env") {
		c.Rule.Env = [][2]string{{"CUSTOM_A", "val-{method}"}, {"CUSTOM_B", "literal value"}}
	}
	if rapid.IntRange(0, 4).Draw(t, "except") == 0 {
		c.Rule.Except = "/static"
	}
	n := rapid.IntRange(1, 6).Draw(t, "nreq")
	for i := 0; i < n; i++ {
		c.Reqs = append(c.Reqs, genReq(t, fmt.Sprintf("r%d", i)))
	}
	return c
}

func TestFastCGI(t *testing.T) {
	if vt.ReplayPath() != "" {
		t.Skip("replay mode")
	}
	rapid.Check(t, func(t *rapid.T) {
		c := genCase(t)
		nt, err := runCase(c)
		classes := []string{}
		if c.Rule.TCP {
			classes = append(classes, "tcp")
		} else {
			classes = append(classes, "unix")
		}
		if c.Rule.Ext != "" {
			classes = append(classes, "ext-spelled-in-other-case")
		}
		vt.Record("fastcgi", c, nt > 0, classes...)
		vt.Extra("fastcgi", "exchanges", len(c.Reqs))
		vt.Extra("fastcgi", "nontrivial_exchanges", nt)
		vt.Check(t, "fastcgi", c, err)
	})
}

func replayCase(rf *vt.ReplayFile) error {
	var c Case
	if err := vt.Decode(rf, &c); err != nil {
		return err
	}
	_, err := runCase(&c)
	return err
}

func TestReplay(t *testing.T) { vt.RunReplay(t, replayCase) }
func TestCorpus(t *testing.T) { vt.RunCorpus(t, replayCase) }
