package c06

import (
	"bufio"
	"context"
	"crypto/ecdsa"
	"crypto/elliptic"
	"crypto/rand"
	"crypto/tls"
	"crypto/x509"
	"crypto/x509/pkix"
	"encoding/pem"
	"fmt"
	"io"
	"math/big"
	"net"
	"net/http"
	"os"
	"path/filepath"
	"sort"
	"strings"
	"sync"
	"testing"
	"time"

	"github.com/caddyserver/certmagic"
	"github.com/tmpim/casket"
	"pgregory.net/rapid"

	"verif/harness/internal/srv"
	"verif/harness/internal/vt"
)

func TestMain(m *testing.M) {
	vt.Property = "C06"
	vt.Main(m)
}

// ---------------------------------------------------------------------------
// certificates

var (
	certOnce   sync.Once
	certDir    string
	clientCA   string // PEM file of the CA that signs client certificates
	// two client CAs: the CA file names one of them (Case.CA), a client offers a certificate of either
	clientCADer [2][]byte
	clientCerts [2]tls.Certificate
)

var hostVocab = []string{"a.test", "b.test", "a.b.test", "c.b.test", "*.test", "*.b.test", "*.*.test", "", "0.0.0.0", "127.0.0.1"}

func fileBase(host string) string {
	if host == "" {
		return "catchall"
	}
	return strings.NewReplacer("*", "star", ".", "_").Replace(host)
}

func marker(host string) string { return "site-" + fileBase(host) }

func writePEM(path, typ string, der []byte) {
	f, _ := os.Create(path)
	pem.Encode(f, &pem.Block{Type: typ, Bytes: der})
	f.Close()
}

func setupCerts() {
	certOnce.Do(func() {
		certDir = filepath.Join(vt.WorkDir, "certs")
		os.MkdirAll(certDir, 0o755)
		newCA := func(cn string) (*x509.Certificate, *ecdsa.PrivateKey, []byte) {
			key, _ := ecdsa.GenerateKey(elliptic.P256(), rand.Reader)
			tpl := &x509.Certificate{SerialNumber: big.NewInt(time.Now().UnixNano()), Subject: pkix.Name{CommonName: cn}, NotBefore: time.Now().Add(-time.Hour), NotAfter: time.Now().Add(24 * time.Hour),
				IsCA: true, KeyUsage: x509.KeyUsageCertSign | x509.KeyUsageDigitalSignature, BasicConstraintsValid: true}
			der, _ := x509.CreateCertificate(rand.Reader, tpl, tpl, &key.PublicKey, key)
			c, _ := x509.ParseCertificate(der)
			return c, key, der
		}
		ca, caKey, _ := newCA("verif server CA")
		serial := int64(1000)
		for _, h := range hostVocab {
			serial++
			key, _ := ecdsa.GenerateKey(elliptic.P256(), rand.Reader)
			san := h
			if h == "" || h == "0.0.0.0" {
				san = "catchall.test"
			}
			var ips []net.IP
			if ip := net.ParseIP(h); ip != nil && h != "0.0.0.0" {
				ips = []net.IP{ip}
			}
			tpl := &x509.Certificate{SerialNumber: big.NewInt(serial), Subject: pkix.Name{CommonName: marker(h)}, DNSNames: []string{san}, IPAddresses: ips, NotBefore: time.Now().Add(-time.Hour), NotAfter: time.Now().Add(24 * time.Hour),
				KeyUsage: x509.KeyUsageDigitalSignature, ExtKeyUsage: []x509.ExtKeyUsage{x509.ExtKeyUsageServerAuth}}
			der, _ := x509.CreateCertificate(rand.Reader, tpl, ca, &key.PublicKey, caKey)
			writePEM(filepath.Join(certDir, fileBase(h)+".crt"), "CERTIFICATE", der)
			kb, _ := x509.MarshalECPrivateKey(key)
			writePEM(filepath.Join(certDir, fileBase(h)+".key"), "EC PRIVATE KEY", kb)
		}
		clientCA = filepath.Join(certDir, "clientca.crt")
		for g := 0; g < 2; g++ {
			cca, ccaKey, ccaDer := newCA(fmt.Sprintf("verif client CA %d", g))
			clientCADer[g] = ccaDer
			ckey, _ := ecdsa.GenerateKey(elliptic.P256(), rand.Reader)
			ctpl := &x509.Certificate{SerialNumber: big.NewInt(77 + int64(g)), Subject: pkix.Name{CommonName: fmt.Sprintf("verif client %d", g)}, NotBefore: time.Now().Add(-time.Hour), NotAfter: time.Now().Add(24 * time.Hour),
				KeyUsage: x509.KeyUsageDigitalSignature, ExtKeyUsage: []x509.ExtKeyUsage{x509.ExtKeyUsageClientAuth}}
			cder, _ := x509.CreateCertificate(rand.Reader, ctpl, cca, &ckey.PublicKey, ccaKey)
			clientCerts[g] = tls.Certificate{Certificate: [][]byte{cder}, PrivateKey: ckey}
		}
		writePEM(clientCA, "CERTIFICATE", clientCADer[0])
	})
}

// ---------------------------------------------------------------------------

type Site struct {
	Host    string `json:"host"`
	MinVer  string `json:"min,omitempty"` // "", tls1.0 .. tls1.3
	MaxVer  string `json:"max,omitempty"`
	Cipher  string `json:"cipher,omitempty"`
	Clients string `json:"clients,omitempty"` // "", request, require, verify_if_given, verify
}

type Shake struct {
	SNI     string `json:"sni"`
	CMin    string `json:"cmin"`
	CMax    string `json:"cmax"`
	Offer   bool   `json:"offer"` // offer a client certificate
	OfferCA int    `json:"offer_ca,omitempty"` // which client CA signed the offered certificate
	HostHdr string `json:"host"`  // Host header of the request after the handshake ("" = same as SNI)
	H2      bool   `json:"h2,omitempty"` // repeat a crossing request over HTTP/2 (ALPN h2)
}

type Case struct {
	Sites  []Site  `json:"sites"`
	Shakes []Shake `json:"shakes"`
	// CA: which client CA the `clients <file>` bundle holds when the configuration under test is loaded.
	// Rotate: the same sites were first loaded with the other CA in that file; the file was then rewritten
	// in place and the configuration reloaded (CA rotation).
	CA     int  `json:"ca,omitempty"`
	Rotate bool `json:"rotate,omitempty"`
	// DefaultSNI: the process runs with -default-sni <name> (the name a ClientHello without SNI is taken to ask for)
	DefaultSNI string `json:"default_sni,omitempty"`
}

var vers = map[string]uint16{"tls1.0": tls.VersionTLS10, "tls1.1": tls.VersionTLS11, "tls1.2": tls.VersionTLS12, "tls1.3": tls.VersionTLS13}
var cipherIDs = map[string]uint16{"ECDHE-ECDSA-AES128-GCM-SHA256": tls.TLS_ECDHE_ECDSA_WITH_AES_128_GCM_SHA256, "ECDHE-ECDSA-AES256-GCM-SHA384": tls.TLS_ECDHE_ECDSA_WITH_AES_256_GCM_SHA384, "ECDHE-ECDSA-WITH-CHACHA20-POLY1305": tls.TLS_ECDHE_ECDSA_WITH_CHACHA20_POLY1305}

func casketfile(c *Case) string {
	setupCerts()
	var sb strings.Builder
	for i, s := range c.Sites {
		fmt.Fprintf(&sb, "https://%s:0 {\n\ttls %s %s", s.Host, filepath.Join(certDir, fileBase(s.Host)+".crt"), filepath.Join(certDir, fileBase(s.Host)+".key"))
		var opts []string
		if s.MinVer != "" || s.MaxVer != "" {
			mn, mx := s.MinVer, s.MaxVer
			if mn == "" {
				mn = "tls1.2"
			}
			if mx == "" {
				mx = "tls1.3"
			}
			opts = append(opts, fmt.Sprintf("protocols %s %s", mn, mx))
		}
		if s.Cipher != "" {
			opts = append(opts, "ciphers "+s.Cipher)
		}
		switch s.Clients {
		case "request", "require":
			opts = append(opts, "clients "+s.Clients)
		case "verify_if_given":
			opts = append(opts, "clients verify_if_given "+clientCA)
		case "verify":
			opts = append(opts, "clients "+clientCA)
		}
		if len(opts) > 0 {
			sb.WriteString(" {\n")
			for _, o := range opts {
				sb.WriteString("\t\t" + o + "\n")
			}
			sb.WriteString("\t}")
		}
		fmt.Fprintf(&sb, "\n\theader / X-Site s%d\n\tstatus 204 /\n}\n", i)
	}
	return sb.String()
}

// reference SNI matcher: exact, then fewest leading wildcards, then catch-all
func isCatchAll(h string) bool { return h == "" || h == "0.0.0.0" }

func matchSite(sites []Site, name string) (int, int) { // index, number of candidates
	name = strings.ToLower(name)
	best, bestRank, n := -1, 1<<30, 0
	for i, s := range sites {
		h := strings.ToLower(s.Host)
		rank := -1
		switch {
		case name == "" && h == "127.0.0.1":
			rank = 0 // without SNI the site keyed by the local address is the most specific
		case name != "" && h == name:
			rank = 0
		case name != "" && strings.Contains(h, "*"):
			hl, nl := strings.Split(h, "."), strings.Split(name, ".")
			if len(hl) == len(nl) {
				k := 0
				for k < len(hl) && hl[k] == "*" {
					k++
				}
				ok := true
				for j := k; j < len(hl); j++ {
					if hl[j] != nl[j] {
						ok = false
					}
				}
				if ok && k > 0 {
					rank = k
				}
			}
		case isCatchAll(h):
			rank = 1000
		}
		if rank >= 0 {
			n++
			if rank < bestRank {
				best, bestRank = i, rank
			}
		}
	}
	return best, n
}

func siteRange(s Site) (uint16, uint16) {
	mn, mx := uint16(tls.VersionTLS12), uint16(tls.VersionTLS13)
	if s.MinVer != "" || s.MaxVer != "" {
		if s.MinVer != "" {
			mn = vers[s.MinVer]
		}
		if s.MaxVer != "" {
			mx = vers[s.MaxVer]
		}
	}
	return mn, mx
}

func runCase(c *Case) (nontrivial int, err error) {
	setupCerts()
	cf := casketfile(c)
	certmagic.Default.DefaultServerName = c.DefaultSNI
	defer func() { certmagic.Default.DefaultServerName = "" }()
	if c.Rotate {
		writePEM(clientCA, "CERTIFICATE", clientCADer[1-c.CA])
	} else {
		writePEM(clientCA, "CERTIFICATE", clientCADer[c.CA])
	}
	inst, e := srv.Start(cf, "")
	if e != nil {
		srv.Stop(inst)
		return 0, fmt.Errorf("HARNESS: start: %v\n%s", e, cf)
	}
	defer func() { srv.Stop(inst) }()
	if c.Rotate {
		writePEM(clientCA, "CERTIFICATE", clientCADer[c.CA])
		srv.Settle(inst)
		ni, e := inst.Restart(casket.CasketfileInput{Contents: []byte(cf), Filepath: "Casketfile", ServerTypeName: "http"})
		if e != nil {
			return 0, fmt.Errorf("reloading the same sites after the client CA file was rewritten failed: %v\n%s", e, cf)
		}
		inst = ni
	}
	// besides the TLS listener casket synthesises a plaintext redirect listener on :80
	var addr string
	for _, a := range srv.Addrs(inst) {
		if srv.PortOf(a) != "80" {
			if addr != "" {
				return 0, fmt.Errorf("HARNESS: more than one non-redirect listener: %v", srv.Addrs(inst))
			}
			addr = srv.Loopback(a)
		}
	}
	if addr == "" {
		return 0, fmt.Errorf("HARNESS: no TLS listener among %v", srv.Addrs(inst))
	}
	for i, sh := range c.Shakes {
		if sh.SNI == "" && c.DefaultSNI != "" {
			// what a ClientHello without SNI gets under -default-sni (settings of the default name, certificate
			// possibly of the local address) is not something the statement settles: no verdict.  The switch is
			// there for the handshakes that do name a host: it must play no part in them.
			continue
		}
		want, ncand := matchSite(c.Sites, sh.SNI)
		desc := fmt.Sprintf("handshake %d %+v against sites %+v", i, sh, c.Sites)
		requested := false
		conf := &tls.Config{ServerName: sh.SNI, InsecureSkipVerify: true, MinVersion: vers[sh.CMin], MaxVersion: vers[sh.CMax],
			GetClientCertificate: func(info *tls.CertificateRequestInfo) (*tls.Certificate, error) {
				requested = true
				if sh.Offer {
					return &clientCerts[sh.OfferCA&1], nil
				}
				return &tls.Certificate{}, nil
			}}
		raw, e := net.DialTimeout("tcp", addr, 3*time.Second)
		if e != nil {
			return nontrivial, fmt.Errorf("HARNESS: dial: %v", e)
		}
		raw.SetDeadline(time.Now().Add(5 * time.Second))
		conn := tls.Client(raw, conf)
		herr := conn.Handshake()
		hostHdr := sh.HostHdr
		if hostHdr == "" {
			hostHdr = sh.SNI
		}
		if hostHdr == "" {
			hostHdr = "a.test"
		}
		var resp *http.Response
		var rerr error
		if herr == nil {
			fmt.Fprintf(conn, "GET / HTTP/1.1\r\nHost: %s\r\nConnection: close\r\n\r\n", hostHdr)
			resp, rerr = http.ReadResponse(bufio.NewReader(conn), &http.Request{Method: "GET"})
		}
		state := conn.ConnectionState()
		conn.Close()
		// the request is routed by Host; a client-auth site must never serve a request that came over
		// a handshake made under another name -- whichever site the SNI itself selected
		if herr == nil && rerr == nil && resp != nil {
			if hs, _ := matchSite(c.Sites, strings.Split(hostHdr, ":")[0]); hs >= 0 {
				hsite := c.Sites[hs]
				if hsite.Clients != "" && !strings.EqualFold(hostHdr, sh.SNI) {
					nontrivial++
					if resp.StatusCode != 403 || resp.Header.Get("X-Site") != "" {
						return nontrivial, fmt.Errorf("handshake %d %+v against sites %+v: request for Host %q (site %+v demands client certificates) over a handshake for SNI %q was answered %d X-Site=%q, want 403", i, sh, c.Sites, hostHdr, hsite, sh.SNI, resp.StatusCode, resp.Header.Get("X-Site"))
					}
					if sh.H2 {
						// the same crossing over HTTP/2: the rule is about requests, not about the protocol version
						st, xs, proto, e2 := h2Get(addr, conf, hostHdr)
						if e2 == nil && proto == 2 && (st != 403 || xs != "") {
							return nontrivial, fmt.Errorf("handshake %d %+v against sites %+v: HTTP/2 request for Host %q (site %+v demands client certificates) over a handshake for SNI %q was answered %d X-Site=%q, want 403", i, sh, c.Sites, hostHdr, hsite, sh.SNI, st, xs)
						}
					}
				}
			}
		}
		if want < 0 {
			// no site matches the SNI: casket documents a fall-back to some configuration; nothing to assert
			continue
		}
		ws := c.Sites[want]
		smin, smax := siteRange(ws)
		cmin, cmax := vers[sh.CMin], vers[sh.CMax]
		lo, hi := smin, smax
		if cmin > lo {
			lo = cmin
		}
		if cmax < hi {
			hi = cmax
		}
		differing := false
		for _, s := range c.Sites {
			if s != ws && (s.MinVer != ws.MinVer || s.MaxVer != ws.MaxVer || s.Clients != ws.Clients || s.Cipher != ws.Cipher) {
				differing = true
			}
		}
		if (ncand >= 2 && differing) || lo > hi || (sh.HostHdr != "" && !strings.EqualFold(sh.HostHdr, sh.SNI)) {
			nontrivial++
		}
		if lo > hi {
			if herr == nil {
				return nontrivial, fmt.Errorf("%s: handshake succeeded with version %#x although the matched site %+v allows [%#x,%#x] and the client offered [%#x,%#x]", desc, state.Version, ws, smin, smax, cmin, cmax)
			}
			continue
		}
		if hi < tls.VersionTLS12 {
			// casket's default suites and the generated single suites are all AEAD suites, which
			// TLS 1.0/1.1 cannot negotiate whatever the protocol range says: no verdict
			continue
		}
		needCert := ws.Clients == "require" || ws.Clients == "verify"
		// a certificate of the CA the bundle does not (any longer) name must not be admitted by a verifying site
		if sh.Offer && (ws.Clients == "verify" || ws.Clients == "verify_if_given") && sh.OfferCA&1 != c.CA&1 {
			nontrivial++
			if herr == nil && rerr == nil && resp != nil && resp.StatusCode == 204 {
				return nontrivial, fmt.Errorf("%s: the site verifies client certificates against client CA %d (rotated in by a reload: %v), the client offered one signed by CA %d, yet the request was served", desc, c.CA, c.Rotate, sh.OfferCA)
			}
			continue
		}
		if isCatchAll(ws.Host) && herr != nil {
			// a catch-all site has no certificate for an arbitrary name: failing the handshake is fine
			continue
		}
		if herr != nil || (rerr != nil && needCert && !sh.Offer) {
			// the handshake may legitimately fail only if the site demands a client certificate and none was offered
			if needCert && !sh.Offer {
				continue
			}
			if herr != nil {
				return nontrivial, fmt.Errorf("%s: handshake failed (%v) although the version ranges intersect ([%#x,%#x]) and the matched site is %+v", desc, herr, lo, hi, ws)
			}
		}
		if state.Version < lo || state.Version > hi {
			return nontrivial, fmt.Errorf("%s: negotiated version %#x outside [%#x,%#x] of the matched site %+v", desc, state.Version, lo, hi, ws)
		}
		if state.Version == tls.VersionTLS12 && ws.Cipher != "" && state.CipherSuite != cipherIDs[ws.Cipher] {
			return nontrivial, fmt.Errorf("%s: TLS 1.2 cipher suite %#x is not the matched site's only configured suite %s", desc, state.CipherSuite, ws.Cipher)
		}
		if !isCatchAll(ws.Host) && (len(state.PeerCertificates) == 0 || state.PeerCertificates[0].Subject.CommonName != marker(ws.Host)) {
			cn := ""
			if len(state.PeerCertificates) > 0 {
				cn = state.PeerCertificates[0].Subject.CommonName
			}
			return nontrivial, fmt.Errorf("%s: presented certificate %q, the matched site's is %q", desc, cn, marker(ws.Host))
		}
		if wantReq := ws.Clients != ""; requested != wantReq {
			return nontrivial, fmt.Errorf("%s: client certificate requested=%v, the matched site's policy is %q", desc, requested, ws.Clients)
		}
		if needCert && !sh.Offer {
			if rerr == nil && resp.StatusCode == 204 {
				return nontrivial, fmt.Errorf("%s: the site demands a client certificate, none was offered, yet the request was served", desc)
			}
			continue
		}
		if rerr != nil {
			return nontrivial, fmt.Errorf("%s: no HTTP response after a successful handshake: %v", desc, rerr)
		}
		if hs, _ := matchSite(c.Sites, strings.Split(hostHdr, ":")[0]); hs >= 0 {
			hsite := c.Sites[hs]
			if !(hsite.Clients != "" && !strings.EqualFold(hostHdr, sh.SNI)) {
				if resp.StatusCode != 204 || resp.Header.Get("X-Site") != fmt.Sprintf("s%d", hs) {
					return nontrivial, fmt.Errorf("%s: request for Host %q answered %d X-Site=%q, want 204 from site s%d", desc, hostHdr, resp.StatusCode, resp.Header.Get("X-Site"), hs)
				}
			}
		}
	}
	return nontrivial, nil
}

// h2Get makes one HTTP/2 request for Host host over a fresh handshake made with conf (plus ALPN h2).
func h2Get(addr string, conf *tls.Config, host string) (status int, xsite string, proto int, err error) {
	c2 := conf.Clone()
	c2.NextProtos = []string{"h2"}
	tr := &http.Transport{TLSClientConfig: c2, ForceAttemptHTTP2: true,
		DialContext: func(ctx context.Context, network, _ string) (net.Conn, error) {
			return (&net.Dialer{Timeout: 3 * time.Second}).DialContext(ctx, network, addr)
		}}
	defer tr.CloseIdleConnections()
	cl := &http.Client{Transport: tr, Timeout: 10 * time.Second, CheckRedirect: func(*http.Request, []*http.Request) error { return http.ErrUseLastResponse }}
	req, err := http.NewRequest("GET", "https://placeholder.invalid/", nil)
	if err != nil {
		return 0, "", 0, err
	}
	req.Host = host
	resp, err := cl.Do(req)
	if err != nil {
		return 0, "", 0, err
	}
	io.Copy(io.Discard, resp.Body)
	resp.Body.Close()
	return resp.StatusCode, resp.Header.Get("X-Site"), resp.ProtoMajor, nil
}

// ---------------------------------------------------------------------------
// invalid groups must be rejected

type rejectCase struct {
	Kind  string `json:"kind"`
	A     Site   `json:"a"`
	B     Site   `json:"b"`
	Order int    `json:"order,omitempty"` // mixed: 0 = TLS site first, 1 = plaintext site first, 2 = TLS, plaintext, TLS; samename: 1 = sites swapped
}

func runReject(c *rejectCase) error {
	setupCerts()
	var cf string
	switch c.Kind {
	case "mixed":
		// a TLS site and a plaintext site on one listener
		one := &Case{Sites: []Site{c.A}}
		tlsSite := strings.Replace(casketfile(one), ":0 {", ":18443 {", 1)
		plain := fmt.Sprintf("http://%s:18443 {\n\tstatus 204 /\n}\n", "plain.test")
		switch c.Order {
		case 1:
			cf = plain + tlsSite
		case 2:
			other := c.B
			other.Host = "other.test"
			cf = tlsSite + plain + strings.Replace(casketfile(&Case{Sites: []Site{other}}), ":0 {", ":18443 {", 1)
		default:
			cf = tlsSite + plain
		}
	case "samename":
		// the same host twice (different paths) with incompatible TLS settings
		two := &Case{Sites: []Site{c.A, c.B}}
		if c.Order == 1 {
			two = &Case{Sites: []Site{c.B, c.A}}
		}
		cf = casketfile(two)
		cf = strings.Replace(cf, c.A.Host+":0 {", c.A.Host+":0/x {", 1)
	}
	inst, err := srv.Start(cf, "")
	if err == nil {
		srv.Stop(inst)
		return fmt.Errorf("configuration accepted although it is invalid (%s):\n%s", c.Kind, cf)
	}
	srv.Stop(inst)
	return nil
}

// ---------------------------------------------------------------------------

func genSite(t *rapid.T, lb string, host string) Site {
	s := Site{Host: host}
	switch rapid.IntRange(0, 4).Draw(t, lb+"ver") {
	case 0:
		s.MinVer, s.MaxVer = "tls1.2", "tls1.2"
	case 1:
		s.MinVer, s.MaxVer = "tls1.3", "tls1.3"
	case 2:
		s.MinVer, s.MaxVer = "tls1.0", "tls1.3"
	case 3:
		s.MinVer, s.MaxVer = "tls1.1", "tls1.2"
	}
	if rapid.IntRange(0, 3).Draw(t, lb+"ciph") == 0 {
		s.Cipher = rapid.SampledFrom([]string{"ECDHE-ECDSA-AES128-GCM-SHA256", "ECDHE-ECDSA-AES256-GCM-SHA384", "ECDHE-ECDSA-WITH-CHACHA20-POLY1305"}).Draw(t, lb+"cn")
	}
	s.Clients = rapid.SampledFrom([]string{"", "", "", "request", "require", "verify_if_given", "verify"}).Draw(t, lb+"cl")
	return s
}

var sniVocab = []string{"a.test", "b.test", "a.b.test", "c.b.test", "zz.b.test", "x.y.test", "q.test", "other.example", "A.B.TEST", "A.Test", "Zz.B.test", ""}

func genCase(t *rapid.T) *Case {
	c := &Case{}
	hosts := rapid.SliceOfNDistinct(rapid.SampledFrom(hostVocab), 1, 5, func(s string) string {
		if s == "0.0.0.0" {
			return ""
		}
		return s
	}).Draw(t, "hosts")
	for i, h := range hosts {
		c.Sites = append(c.Sites, genSite(t, fmt.Sprintf("s%d", i), h))
	}
	if rapid.IntRange(0, 3).Draw(t, "dsni") == 0 {
		// one of the declared exact names
		var exact []string
		for _, st := range c.Sites {
			if st.Host != "" && !strings.Contains(st.Host, "*") && net.ParseIP(st.Host) == nil {
				exact = append(exact, st.Host)
			}
		}
		if len(exact) > 0 {
			c.DefaultSNI = rapid.SampledFrom(exact).Draw(t, "dsniv")
		}
	}
	c.CA = rapid.IntRange(0, 1).Draw(t, "ca")
	c.Rotate = rapid.IntRange(0, 3).Draw(t, "rotate") == 0
	n := rapid.IntRange(4, 14).Draw(t, "nshakes")
	for i := 0; i < n; i++ {
		lb := fmt.Sprintf("h%d", i)
		sh := Shake{SNI: rapid.SampledFrom(sniVocab).Draw(t, lb+"sni"), Offer: rapid.Bool().Draw(t, lb+"offer")}
		if sh.Offer {
			sh.OfferCA = rapid.SampledFrom([]int{c.CA, c.CA, 1 - c.CA}).Draw(t, lb+"oca")
		}
		r := rapid.SampledFrom([][2]string{{"tls1.2", "tls1.3"}, {"tls1.0", "tls1.3"}, {"tls1.2", "tls1.2"}, {"tls1.3", "tls1.3"}, {"tls1.0", "tls1.1"}, {"tls1.0", "tls1.2"}}).Draw(t, lb+"cr")
		sh.CMin, sh.CMax = r[0], r[1]
		if rapid.IntRange(0, 2).Draw(t, lb+"hh") == 0 {
			sh.HostHdr = rapid.SampledFrom(sniVocab[:8]).Draw(t, lb+"hhv")
			sh.H2 = rapid.Bool().Draw(t, lb+"h2")
		}
		c.Shakes = append(c.Shakes, sh)
	}
	return c
}

func TestHandshakes(t *testing.T) {
	if vt.ReplayPath() != "" {
		t.Skip("replay mode")
	}
	rapid.Check(t, func(t *rapid.T) {
		c := genCase(t)
		nt, err := runCase(c)
		classes := []string{fmt.Sprintf("sites=%d", len(c.Sites))}
		pol := map[string]bool{}
		for _, s := range c.Sites {
			if s.Clients != "" {
				pol["client-auth"] = true
			}
			if strings.Contains(s.Host, "*") {
				pol["wildcard"] = true
			}
			if isCatchAll(s.Host) {
				pol["catch-all"] = true
			}
		}
		for k := range pol {
			classes = append(classes, k)
		}
		sort.Strings(classes)
		vt.Record("handshakes", c, nt > 0, classes...)
		vt.Extra("handshakes", "handshakes", len(c.Shakes))
		vt.Extra("handshakes", "nontrivial_handshakes", nt)
		vt.Check(t, "handshakes", c, err)
	})
}

func TestReject(t *testing.T) {
	if vt.ReplayPath() != "" {
		t.Skip("replay mode")
	}
	rapid.Check(t, func(t *rapid.T) {
		c := &rejectCase{Kind: rapid.SampledFrom([]string{"mixed", "samename"}).Draw(t, "kind")}
		h := rapid.SampledFrom([]string{"a.test", "b.test", "*.b.test"}).Draw(t, "host")
		c.A = genSite(t, "a", h)
		c.B = genSite(t, "b", h)
		if c.Kind == "samename" && c.A.MinVer == c.B.MinVer && c.A.MaxVer == c.B.MaxVer && c.A.Cipher == c.B.Cipher && (c.A.Clients == c.B.Clients) {
			// compatible settings are allowed: make them differ
			if c.B.MinVer == "tls1.3" {
				c.B.MinVer, c.B.MaxVer = "tls1.2", "tls1.2"
			} else {
				c.B.MinVer, c.B.MaxVer = "tls1.3", "tls1.3"
			}
		}
		if c.Kind == "samename" {
			// verify vs verify_if_given share the CA list but differ in policy; request vs require differ too: all fine
		}
		c.Order = rapid.IntRange(0, 2).Draw(t, "order")
		if c.Kind == "samename" && c.Order == 2 {
			c.Order = 1
		}
		err := runReject(c)
		vt.Record("reject", c, true, "kind:"+c.Kind, fmt.Sprintf("order:%d", c.Order))
		vt.Check(t, "reject", c, err)
	})
}

func replayCase(rf *vt.ReplayFile) error {
	switch rf.Sub {
	case "handshakes":
		var c Case
		if err := vt.Decode(rf, &c); err != nil {
			return err
		}
		_, err := runCase(&c)
		return err
	case "reject":
		var c rejectCase
		if err := vt.Decode(rf, &c); err != nil {
			return err
		}
		return runReject(&c)
	}
	return fmt.Errorf("HARNESS: unknown sub %q", rf.Sub)
}

func TestReplay(t *testing.T) { vt.RunReplay(t, replayCase) }
func TestCorpus(t *testing.T) { vt.RunCorpus(t, replayCase) }
