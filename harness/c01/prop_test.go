package c01

import (
	"context"
	"crypto/tls"
	"fmt"
	"io"
	"net"
	"net/http"
	"net/url"
	"sort"
	"strings"
	"sync"
	"testing"
	"time"

	"pgregory.net/rapid"

	"verif/harness/internal/srv"
	"verif/harness/internal/vt"
)

func TestMain(m *testing.M) {
	vt.Property = "C01"
	vt.Main(m)
}

// Site is one declared site address (host pattern + path prefix); all sites
// of a case share one listener.
type Site struct {
	Host string `json:"host"` // as declared (may contain upper case); "" = catch-all ":port"
	Path string `json:"path"` // "" or a prefix starting with '/'
}

type Req struct {
	Host string `json:"host"` // Host header value as sent
	Path string `json:"path"` // request target (origin-form, no query)
}

type Case struct {
	Sites []Site `json:"sites"`
	Perm  []int  `json:"perm"` // second declaration order
	Reqs  []Req  `json:"reqs"`
	H2    bool   `json:"h2,omitempty"` // sites are HTTPS (tls self_signed) and the client speaks HTTP/2
}

// ---------------------------------------------------------------------------
// reference router, written from the property statement: a plain list scan

func isIPv6Literal(h string) bool { return strings.Contains(h, ":") }

// normHost lower-cases and strips the port of a request Host value.
func normHost(h string) string {
	h = strings.ToLower(h)
	if strings.HasPrefix(h, "[") {
		if i := strings.Index(h, "]"); i >= 0 {
			return h[1:i]
		}
		return h
	}
	if i := strings.LastIndex(h, ":"); i >= 0 && strings.Count(h, ":") == 1 {
		return h[:i]
	}
	return h
}

func declHost(s Site) string {
	h := strings.ToLower(s.Host)
	h = strings.TrimSuffix(strings.TrimPrefix(h, "["), "]")
	return h
}

func leadingStars(p string) int {
	n := 0
	for _, l := range strings.Split(p, ".") {
		if l != "*" {
			break
		}
		n++
	}
	return n
}

// wildcardMatch: pattern with k leading "*" labels matches a host with the
// same number of labels whose remaining labels are equal.
func wildcardMatch(pattern, host string) bool {
	pl, hl := strings.Split(pattern, "."), strings.Split(host, ".")
	if len(pl) != len(hl) {
		return false
	}
	k := leadingStars(pattern)
	if k == 0 {
		return false
	}
	for i := k; i < len(pl); i++ {
		if pl[i] != hl[i] {
			return false
		}
	}
	return true
}

// catch-all spellings: ":port", "0.0.0.0", "[::]" and "*" (pinned as a catch-all by casket's own TestVHostTrieWildcard3)
func isCatchAll(h string) bool { return h == "" || h == "0.0.0.0" || h == "::" || h == "*" }

type decision struct {
	site              int // -1 = no site
	hostKind          string
	nHostCand         int // number of declared host patterns that match at any specificity
	nPathCand         int
	ambiguousCatchAll bool
}

// decodedPath is the request path as net/http presents it (percent-decoded).
func decodedPath(target string) string {
	u, err := url.ParseRequestURI(target)
	if err != nil {
		return target
	}
	return u.Path
}

func isASCII(s string) bool {
	for i := 0; i < len(s); i++ {
		if s[i] >= 0x80 {
			return false
		}
	}
	return true
}

func effPath(p string) string {
	if p == "" {
		return "/"
	}
	return p
}

func route(sites []Site, req Req) decision {
	h := normHost(req.Host)
	d := decision{site: -1}
	// which distinct declared hosts match, and how
	type cand struct {
		host string
		rank int // 0 exact, k wildcards, 1000 catch-all
	}
	seen := map[string]bool{}
	var cands []cand
	for _, s := range sites {
		dh := declHost(s)
		if seen[dh] {
			continue
		}
		switch {
		case dh == h && !(isCatchAll(dh) && dh == ""):
			seen[dh] = true
			cands = append(cands, cand{dh, 0})
		case strings.Contains(dh, "*") && wildcardMatch(dh, h):
			seen[dh] = true
			cands = append(cands, cand{dh, leadingStars(dh)})
		case isCatchAll(dh):
			seen[dh] = true
			cands = append(cands, cand{dh, 1000})
		}
	}
	d.nHostCand = len(cands)
	if len(cands) == 0 {
		d.hostKind = "none"
		return d
	}
	sort.SliceStable(cands, func(i, j int) bool { return cands[i].rank < cands[j].rank })
	best := cands[0]
	nCatch := 0
	for _, c := range cands {
		if c.rank == 1000 {
			nCatch++
		}
	}
	switch {
	case best.rank == 0:
		d.hostKind = "exact"
	case best.rank < 1000:
		d.hostKind = "wildcard"
	default:
		d.hostKind = "catch-all"
		if nCatch > 1 {
			d.ambiguousCatchAll = true
		}
	}
	// among that host's sites the longest path prefix
	bestLen := -1
	for i, s := range sites {
		if declHost(s) != best.host {
			continue
		}
		p := effPath(s.Path)
		if strings.HasPrefix(decodedPath(req.Path), p) {
			d.nPathCand++
			if len(p) > bestLen {
				bestLen = len(p)
				d.site = i
			}
		}
	}
	return d
}

// ---------------------------------------------------------------------------

func siteAddr(s Site, port string, h2 bool) string {
	if h2 {
		return "https://" + s.Host + ":" + port + s.Path
	}
	return "http://" + s.Host + ":" + port + s.Path
}

func casketfile(sites []Site, order []int, port string, h2 bool) string {
	var sb strings.Builder
	for _, i := range order {
		s := sites[i]
		tls := ""
		if h2 {
			tls = "\ttls self_signed\n"
		}
		fmt.Fprintf(&sb, "%s {\n%s\theader / X-Site s%d\n\theader / X-Seen \"{rewrite_path}\"\n\tstatus 204 /\n}\n", siteAddr(s, port, h2), tls, i)
	}
	return sb.String()
}

// pickSNI returns a server name for which some site has a certificate, so
// that the handshake succeeds (which certificate is presented is C06's
// subject; routing must follow the request's authority, not the SNI).
func pickSNI(sites []Site) (string, bool) {
	for _, s := range sites {
		h := strings.ToLower(s.Host)
		if h == "" || isCatchAll(h) || isIPv6Literal(h) || strings.HasPrefix(h, "[") || (h[0] >= '0' && h[0] <= '9') {
			continue
		}
		return strings.ReplaceAll(h, "*", "a"), true
	}
	return "", false
}

// runOrderH2 is runOrder over TLS with an HTTP/2 client; the SNI is a fixed
// name (certificate choice is C06's subject), the :authority is the case's Host.
func runOrderH2(c *Case, order []int) ([]obs, error) {
	inst, err := srv.Start(casketfile(c.Sites, order, "0", true), "")
	if err != nil {
		srv.Stop(inst)
		return nil, fmt.Errorf("START: %v", err)
	}
	defer srv.Stop(inst)
	// besides the TLS listener casket synthesises a plaintext redirect listener on :80
	var addr string
	for _, a := range srv.Addrs(inst) {
		if srv.PortOf(a) != "80" {
			if addr != "" {
				return nil, fmt.Errorf("HARNESS: more than one non-redirect listener: %v", srv.Addrs(inst))
			}
			addr = srv.Loopback(a)
		}
	}
	if addr == "" {
		return nil, fmt.Errorf("HARNESS: no TLS listener among %v", srv.Addrs(inst))
	}
	sni, ok := pickSNI(c.Sites)
	if !ok {
		return nil, fmt.Errorf("SKIP-NO-SNI")
	}
	tr := &http.Transport{
		TLSClientConfig:   &tls.Config{InsecureSkipVerify: true, ServerName: sni, NextProtos: []string{"h2"}},
		ForceAttemptHTTP2: true,
		DialContext: func(ctx context.Context, network, _ string) (net.Conn, error) {
			return (&net.Dialer{Timeout: 5 * time.Second}).DialContext(ctx, network, addr)
		},
	}
	defer tr.CloseIdleConnections()
	cl := &http.Client{Transport: tr, Timeout: 20 * time.Second, CheckRedirect: func(*http.Request, []*http.Request) error { return http.ErrUseLastResponse }}
	var out []obs
	for _, r := range c.Reqs {
		req, err := http.NewRequest("GET", "https://placeholder.invalid"+r.Path, nil)
		if err != nil {
			return nil, fmt.Errorf("HARNESS: %v", err)
		}
		req.Host = r.Host
		resp, err := cl.Do(req)
		if err != nil {
			return nil, fmt.Errorf("HARNESS: h2 request %+v: %v", r, err)
		}
		b, _ := io.ReadAll(resp.Body)
		resp.Body.Close()
		if resp.ProtoMajor != 2 {
			return nil, fmt.Errorf("HARNESS: response over %s, wanted HTTP/2", resp.Proto)
		}
		out = append(out, obs{Status: resp.StatusCode, Site: resp.Header.Get("X-Site"), Seen: resp.Header.Get("X-Seen"), Body: string(b)})
	}
	return out, nil
}

type obs struct {
	Status int
	Site   string
	Seen   string
	Body   string
}

func runOrder(c *Case, order []int) ([]obs, error) {
	if c.H2 {
		return runOrderH2(c, order)
	}
	inst, err := srv.Start(casketfile(c.Sites, order, "0", false), "")
	if err != nil {
		srv.Stop(inst)
		return nil, fmt.Errorf("START: %v", err)
	}
	defer srv.Stop(inst)
	// besides the TLS listener casket synthesises a plaintext redirect listener on :80
	var addr string
	for _, a := range srv.Addrs(inst) {
		if srv.PortOf(a) != "80" {
			if addr != "" {
				return nil, fmt.Errorf("HARNESS: more than one non-redirect listener: %v", srv.Addrs(inst))
			}
			addr = srv.Loopback(a)
		}
	}
	if addr == "" {
		return nil, fmt.Errorf("HARNESS: no TLS listener among %v", srv.Addrs(inst))
	}
	conn, err := srv.Dial(addr)
	if err != nil {
		return nil, fmt.Errorf("HARNESS: dial: %v", err)
	}
	defer conn.Close()
	var out []obs
	for _, r := range c.Reqs {
		resp, err := conn.Do("GET", srv.Request("GET", r.Path, r.Host, nil, nil))
		if err != nil {
			return nil, fmt.Errorf("request %+v: no well-formed response: %v", r, err)
		}
		out = append(out, obs{Status: resp.Status, Site: resp.Header.Get("X-Site"), Seen: resp.Header.Get("X-Seen"), Body: string(resp.Body)})
		if resp.Close {
			conn.Close()
			if conn, err = srv.Dial(addr); err != nil {
				return nil, fmt.Errorf("HARNESS: redial: %v", err)
			}
		}
	}
	// the same requests again, from several connections at once: the choice of
	// site must not depend on what other requests are being routed meanwhile
	var wg sync.WaitGroup
	errs := make(chan error, 8)
	for g := 0; g < 6; g++ {
		wg.Add(1)
		go func(g int) {
			defer wg.Done()
			cc, err := srv.Dial(addr)
			if err != nil {
				return
			}
			defer func() { cc.Close() }()
			for round := 0; round < 2; round++ {
				for k := range c.Reqs {
					i := (k + g*3) % len(c.Reqs)
					r := c.Reqs[i]
					resp, err := cc.Do("GET", srv.Request("GET", r.Path, r.Host, nil, nil))
					if err != nil {
						return // connection-level trouble is not what this phase is about
					}
					got := obs{Status: resp.Status, Site: resp.Header.Get("X-Site"), Seen: resp.Header.Get("X-Seen"), Body: string(resp.Body)}
					if got != out[i] {
						select {
						case errs <- fmt.Errorf("request %+v: answered %+v while other requests were being routed, %+v on its own", r, got, out[i]):
						default:
						}
						return
					}
					if resp.Close {
						cc.Close()
						if cc, err = srv.Dial(addr); err != nil {
							return
						}
					}
				}
			}
		}(g)
	}
	wg.Wait()
	select {
	case err := <-errs:
		return nil, err
	default:
	}
	return out, nil
}

func runCase(c *Case) (nontrivialReqs int, err error) {
	ident := make([]int, len(c.Sites))
	for i := range ident {
		ident[i] = i
	}
	o1, err := runOrder(c, ident)
	if err != nil {
		if strings.HasPrefix(err.Error(), "START") {
			return 0, fmt.Errorf("SKIP-REJECTED: %v", err)
		}
		return 0, err
	}
	o2, err := runOrder(c, c.Perm)
	if err != nil {
		if strings.HasPrefix(err.Error(), "START") {
			return 0, fmt.Errorf("site set accepted in declaration order %v but rejected in order %v: %v", ident, c.Perm, err)
		}
		return 0, err
	}
	for i, r := range c.Reqs {
		d := route(c.Sites, r)
		if d.nHostCand >= 2 || d.nPathCand >= 2 || d.hostKind == "catch-all" || d.site < 0 {
			nontrivialReqs++
		}
		a, b := o1[i], o2[i]
		if a != b {
			return nontrivialReqs, fmt.Errorf("request %+v: outcome depends on declaration order: order %v -> %+v, order %v -> %+v", r, ident, a, c.Perm, b)
		}
		if d.ambiguousCatchAll {
			// several catch-all spellings: the statement gives no precedence; some catch-all site or 404
			if a.Status == 204 {
				var si int
				fmt.Sscanf(a.Site, "s%d", &si)
				if a.Site == "" || si >= len(c.Sites) || !isCatchAll(declHost(c.Sites[si])) {
					return nontrivialReqs, fmt.Errorf("request %+v: expected one of the catch-all sites, got %+v", r, a)
				}
			}
			continue
		}
		if d.site < 0 {
			notFound := 404
			if c.H2 {
				notFound = 421
			}
			if a.Status != notFound || a.Site != "" || !strings.Contains(a.Body, "is not served on this interface") {
				return nontrivialReqs, fmt.Errorf("request %+v matches no site (host match: %s) and must get the %d site-not-found response with no site handler run; got %+v", r, d.hostKind, notFound, a)
			}
			continue
		}
		want := fmt.Sprintf("s%d", d.site)
		if a.Status != 204 || a.Site != want {
			return nontrivialReqs, fmt.Errorf("request %+v: want site %s (%s host match, declared %+v), got status %d X-Site %q body %q", r, want, d.hostKind, c.Sites[d.site], a.Status, a.Site, a.Body)
		}
		if !strings.Contains(r.Path, "%") && !strings.Contains(r.Path, "//") && isASCII(r.Path) {
			p := effPath(c.Sites[d.site].Path)
			seen := r.Path
			if p != "/" {
				seen = strings.TrimPrefix(r.Path, p)
				if !strings.HasPrefix(seen, "/") {
					seen = "/" + seen
				}
			}
			if a.Seen != seen {
				return nontrivialReqs, fmt.Errorf("request %+v handled by site %+v: handler saw path %q, want %q", r, c.Sites[d.site], a.Seen, seen)
			}
		}
	}
	return nontrivialReqs, nil
}

// ---------------------------------------------------------------------------
// generators

var labels = []string{"a", "b", "c"}

func genName(t *rapid.T, label string) string {
	n := rapid.IntRange(1, 3).Draw(t, label+"n")
	var ls []string
	for i := 0; i < n; i++ {
		ls = append(ls, rapid.SampledFrom(labels).Draw(t, fmt.Sprintf("%sl%d", label, i)))
	}
	return strings.Join(ls, ".") + ".test"
}

func mixCase(t *rapid.T, s, label string) string {
	if rapid.IntRange(0, 3).Draw(t, label+"mc") != 0 {
		return s
	}
	b := []byte(s)
	for i := range b {
		if b[i] >= 'a' && b[i] <= 'z' && rapid.Bool().Draw(t, fmt.Sprintf("%su%d", label, i)) {
			b[i] -= 32
		}
	}
	return string(b)
}

func genSiteHost(t *rapid.T, label string, ipv6 bool) string {
	k := rapid.IntRange(0, 99).Draw(t, label+"k")
	switch {
	case k < 45:
		return mixCase(t, genName(t, label), label)
	case k < 70:
		// leading wildcards
		name := strings.Split(genName(t, label), ".")
		w := rapid.IntRange(1, len(name)).Draw(t, label+"w")
		for i := 0; i < w; i++ {
			name[i] = "*"
		}
		return mixCase(t, strings.Join(name, "."), label)
	case k < 80:
		return "" // :port
	case k < 85:
		return "0.0.0.0"
	case k < 92:
		return rapid.SampledFrom([]string{"127.0.0.1", "10.0.0.1", "localhost"}).Draw(t, label+"ip")
	default:
		if ipv6 {
			return rapid.SampledFrom([]string{"[::1]", "[::]"}).Draw(t, label+"ip6")
		}
		return "*"
	}
}

var sitePaths = []string{"", "", "", "/a", "/a/", "/a/b", "/ab", "/b", "/a/b/c", "/x-y", "/caf\u00e9", "/\u00e9", "/a/\u65e5"}

func genCase(t *rapid.T) *Case {
	c := &Case{}
	ipv6 := !vt.Open("ipv6-host-without-port")
	n := rapid.IntRange(1, 7).Draw(t, "nsites")
	seen := map[string]bool{}
	for i := 0; i < n; i++ {
		lb := fmt.Sprintf("s%d", i)
		var s Site
		// reuse an earlier host often, so that path prefixes nest
		if len(c.Sites) > 0 && rapid.IntRange(0, 2).Draw(t, lb+"reuse") == 0 {
			s.Host = c.Sites[rapid.IntRange(0, len(c.Sites)-1).Draw(t, lb+"ri")].Host
		} else {
			s.Host = genSiteHost(t, lb, ipv6)
		}
		s.Path = rapid.SampledFrom(sitePaths).Draw(t, lb+"path")
		key := declHost(s) + "|" + effPath(s.Path)
		if seen[key] {
			continue
		}
		seen[key] = true
		c.Sites = append(c.Sites, s)
	}
	c.Perm = rapid.Permutation(identity(len(c.Sites))).Draw(t, "perm")
	nr := rapid.IntRange(5, 25).Draw(t, "nreq")
	for i := 0; i < nr; i++ {
		c.Reqs = append(c.Reqs, genReq(t, c.Sites, fmt.Sprintf("r%d", i)))
	}
	return c
}

func identity(n int) []int {
	out := make([]int, n)
	for i := range out {
		out[i] = i
	}
	return out
}

var reqPaths = []string{"/", "/a", "/a/", "/a/b", "/a/b/c/d", "/ab", "/abc", "/b", "/c", "/A", "/a/B", "/x-y/z", "/a%2Fb", "/%61/b", "/a/../b", "//a", "/a//b", "/caf%C3%A9/x", "/caf\u00e9", "/caf", "/%C3%A9", "/\u00e9/y", "/a/%E6%97%A5/z", "/a/%E6", "/%c3"}

func genReq(t *rapid.T, sites []Site, label string) Req {
	var host string
	k := rapid.IntRange(0, 9).Draw(t, label+"k")
	s := sites[rapid.IntRange(0, len(sites)-1).Draw(t, label+"si")]
	dh := s.Host
	switch {
	case k < 6 && dh != "":
		// derived from a declared host: fill wildcards with labels
		ls := strings.Split(dh, ".")
		for i := range ls {
			if ls[i] == "*" {
				ls[i] = rapid.SampledFrom([]string{"a", "b", "c", "zz"}).Draw(t, fmt.Sprintf("%sw%d", label, i))
			}
		}
		host = strings.Join(ls, ".")
		// sometimes add or drop a label so the pattern does not match
		if !strings.HasPrefix(host, "[") && !(host[0] >= '0' && host[0] <= '9') {
			switch rapid.IntRange(0, 7).Draw(t, label+"mut") {
			case 0:
				host = "a." + host
			case 1:
				if i := strings.Index(host, "."); i > 0 {
					host = host[i+1:]
				}
			}
		}
	case k < 9:
		host = genName(t, label)
	default:
		host = rapid.SampledFrom([]string{"other.example", "localhost", "127.0.0.1", "0.0.0.0", "test", "a"}).Draw(t, label+"oh")
	}
	host = mixCase(t, host, label+"h")
	if rapid.IntRange(0, 14).Draw(t, label+"nohost") == 0 {
		// a request that names no host at all (empty Host value): only a catch-all can take it
		return Req{Host: "", Path: rapid.SampledFrom(reqPaths).Draw(t, label+"path")}
	}
	switch rapid.IntRange(0, 3).Draw(t, label+"port") {
	case 0:
		host += ":80"
	case 1:
		host += ":54321"
	}
	return Req{Host: host, Path: rapid.SampledFrom(reqPaths).Draw(t, label+"path")}
}

func classify(c *Case) []string {
	var cl []string
	kinds := map[string]bool{}
	for _, r := range c.Reqs {
		d := route(c.Sites, r)
		kinds["host:"+d.hostKind] = true
		if d.site < 0 {
			kinds["no-site"] = true
		}
		if d.nHostCand >= 2 {
			kinds["overlapping-hosts"] = true
		}
		if d.nPathCand >= 2 {
			kinds["nested-paths"] = true
		}
		if d.ambiguousCatchAll {
			kinds["ambiguous-catch-all"] = true
		}
	}
	for k := range kinds {
		cl = append(cl, k)
	}
	sort.Strings(cl)
	return cl
}

// TestH2 is the routing property over HTTP/2 (the statement's 421 clause).
func TestH2(t *testing.T) {
	if vt.ReplayPath() != "" {
		t.Skip("replay mode")
	}
	rapid.Check(t, func(t *rapid.T) {
		c := genCase(t)
		c.H2 = true
		// an HTTP/2 client re-encodes the target: keep the targets it sends verbatim
		var rs []Req
		for _, r := range c.Reqs {
			if r.Host != "" && !strings.Contains(r.Path, "%") && !strings.Contains(r.Path, "//") && !strings.Contains(r.Path, "..") && isASCII(r.Path) {
				rs = append(rs, r)
			}
		}
		c.Reqs = rs
		if len(c.Reqs) == 0 {
			vt.Skip("h2", "no-plain-target")
			return
		}
		nt, err := runCase(c)
		if err != nil && strings.HasPrefix(err.Error(), "SKIP-REJECTED") {
			vt.Skip("h2", "site-set-rejected-by-casket")
			return
		}
		if err != nil && strings.Contains(err.Error(), "SKIP-NO-SNI") {
			vt.Skip("h2", "no-site-with-a-dns-name")
			return
		}
		vt.Record("h2", c, nt > 0, classify(c)...)
		vt.Extra("h2", "requests", len(c.Reqs))
		vt.Extra("h2", "nontrivial_requests", nt)
		vt.Check(t, "h2", c, err)
	})
}

func TestRouting(t *testing.T) {
	if vt.ReplayPath() != "" {
		t.Skip("replay mode")
	}
	rapid.Check(t, func(t *rapid.T) {
		c := genCase(t)
		nt, err := runCase(c)
		if err != nil && strings.HasPrefix(err.Error(), "SKIP-REJECTED") {
			vt.Skip("routing", "site-set-rejected-by-casket")
			return
		}
		vt.Record("routing", c, nt > 0, classify(c)...)
		vt.Extra("routing", "requests", len(c.Reqs))
		vt.Extra("routing", "nontrivial_requests", nt)
		vt.Check(t, "routing", c, err)
	})
}

func replayCase(rf *vt.ReplayFile) error {
	var c Case
	if err := vt.Decode(rf, &c); err != nil {
		return err
	}
	_, err := runCase(&c)
	if err != nil && (strings.HasPrefix(err.Error(), "SKIP-REJECTED") || strings.Contains(err.Error(), "SKIP-NO-SNI")) {
		return nil
	}
	return err
}

func TestReplay(t *testing.T) { vt.RunReplay(t, replayCase) }
func TestCorpus(t *testing.T) { vt.RunCorpus(t, replayCase) }
