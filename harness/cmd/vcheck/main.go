// vcheck is the driver behind /verif/check.
//
//	vcheck <ID> quick|thorough
//	vcheck <ID> --replay <file>
//
// It builds the property's test binary against /repo's current working tree
// (build tag verif), runs the configured sub-checks as sharded processes
// (optionally each in a private network namespace), merges the per-shard
// statistics into evidence/<ID>.json and maps the outcome to the exit code:
// 0 held, 1 violation (with VIOLATION lines), 2 inconclusive/broken.
package main

import (
	"bufio"
	"bytes"
	"context"
	"encoding/binary"
	"encoding/json"
	"fmt"
	"hash/fnv"
	"io"
	"os"
	"os/exec"
	"path/filepath"
	"sort"
	"strconv"
	"strings"
	"sync"
	"sync/atomic"
	"syscall"
	"time"
)

type Sub struct {
	Name             string `json:"name"`     // label in the evidence
	Run              string `json:"run"`      // -test.run regexp
	Quick            int    `json:"quick"`    // total rapid checks, quick tier (0 = not run in quick)
	Thorough         int    `json:"thorough"` // total rapid checks, thorough tier
	QShards          int    `json:"qshards"`
	TShards          int    `json:"tshards"`
	Race             bool   `json:"race"`               // build with -race
	Fuzz             string `json:"fuzz"`               // native fuzz target (thorough only)
	FuzzSecs         int    `json:"fuzzsecs"`           // native fuzz duration
	Steps            int    `json:"steps"`              // -rapid.steps
	NoRapid          bool   `json:"norapid"`            // plain test: VERIF_N carries the count
	CrashIsViolation bool   `json:"crash_is_violation"` // a crash of the test process while a case runs is a verdict (the case is in current.<shard>.json)
	MemLimitMB       int    `json:"mem_limit_mb"`       // ulimit -v for the job
}

type Prop struct {
	ID          string   `json:"id"`
	Pkg         string   `json:"pkg"`
	Netns       bool     `json:"netns"`
	Level       string   `json:"level"`
	Rule        string   `json:"rule"`
	Assumptions []string `json:"assumptions"`
	QuickSecs   int      `json:"quick_timeout_s"`
	ThorSecs    int      `json:"thorough_timeout_s"`
	Subs        []Sub    `json:"subs"`
}

var (
	verifDir   = "/verif"
	harnessDir = "/verif/harness"
)

func main() {
	if d := os.Getenv("VERIF_DIR"); d != "" {
		verifDir = d
		harnessDir = filepath.Join(d, "harness")
	}
	if len(os.Args) < 3 {
		fmt.Fprintln(os.Stderr, "usage: vcheck <ID> quick|thorough | --replay <file> | --build")
		os.Exit(2)
	}
	id := os.Args[1]
	mode := os.Args[2]
	props := loadProps()
	var p *Prop
	for i := range props {
		if props[i].ID == id {
			p = &props[i]
		}
	}
	if p == nil {
		fmt.Fprintf(os.Stderr, "vcheck: unknown property %s\n", id)
		os.Exit(2)
	}
	switch mode {
	case "quick", "thorough":
		os.Exit(runTier(p, mode))
	case "--replay":
		if len(os.Args) < 4 {
			fmt.Fprintln(os.Stderr, "vcheck: --replay needs a file")
			os.Exit(2)
		}
		os.Exit(runReplay(p, os.Args[3]))
	case "--build":
		if _, err := build(p, false); err != nil {
			fmt.Fprintln(os.Stderr, err)
			os.Exit(2)
		}
	default:
		fmt.Fprintln(os.Stderr, "vcheck: unknown mode", mode)
		os.Exit(2)
	}
}

func loadProps() []Prop {
	b, err := os.ReadFile(filepath.Join(harnessDir, "checks.json"))
	if err != nil {
		fmt.Fprintln(os.Stderr, "vcheck:", err)
		os.Exit(2)
	}
	var props []Prop
	if err := json.Unmarshal(b, &props); err != nil {
		fmt.Fprintln(os.Stderr, "vcheck: checks.json:", err)
		os.Exit(2)
	}
	return props
}

func goEnv() []string {
	env := os.Environ()
	env = append(env, "GOFLAGS=-mod=mod", "GOPROXY=off", "GOSUMDB=off", "GOTOOLCHAIN=local", "CGO_ENABLED=1")
	return env
}

func build(p *Prop, race bool) (string, error) {
	bdir := filepath.Join(verifDir, ".build")
	os.MkdirAll(bdir, 0o755)
	// one binary per invocation: two checks of the same property may run at the same time
	out := filepath.Join(bdir, fmt.Sprintf("%s.%d.test", strings.ToLower(p.ID), os.Getpid()))
	args := []string{"test", "-c", "-tags", "verif", "-vet=off", "-o", out}
	if race {
		out = filepath.Join(bdir, fmt.Sprintf("%s.%d.race.test", strings.ToLower(p.ID), os.Getpid()))
		args = []string{"test", "-c", "-race", "-tags", "verif", "-vet=off", "-o", out}
	}
	builtBins = append(builtBins, out)
	args = append(args, "./"+p.Pkg)
	// go.sum must cover casket's dependencies; refresh it from /repo.
	syncGoSum()
	cmd := exec.Command("go", args...)
	cmd.Dir = harnessDir
	cmd.Env = goEnv()
	var buf bytes.Buffer
	cmd.Stdout = &buf
	cmd.Stderr = &buf
	if err := cmd.Run(); err != nil {
		return "", fmt.Errorf("BUILD FAILED (%v):\n%s", err, buf.String())
	}
	return out, nil
}

var goSumOnce sync.Once

// binaries built by this invocation, removed when it ends
var builtBins []string

func removeBuilt() {
	for _, b := range builtBins {
		os.Remove(b)
	}
}

// pruneStale removes scratch directories and binaries that crashed invocations left behind.
func pruneStale() {
	for _, pat := range []string{filepath.Join(verifDir, ".work", "*"), filepath.Join(verifDir, ".build", "*.test")} {
		ms, _ := filepath.Glob(pat)
		for _, m := range ms {
			if fi, err := os.Stat(m); err == nil && time.Since(fi.ModTime()) > 6*time.Hour {
				os.RemoveAll(m)
			}
		}
	}
}

func syncGoSum() {
	goSumOnce.Do(func() {
		have, _ := os.ReadFile(filepath.Join(harnessDir, "go.sum"))
		repo, err := os.ReadFile("/repo/go.sum")
		if err != nil {
			return
		}
		lines := map[string]bool{}
		for _, l := range strings.Split(string(have), "\n") {
			if l != "" {
				lines[l] = true
			}
		}
		changed := false
		for _, l := range strings.Split(string(repo), "\n") {
			if l != "" && !lines[l] {
				lines[l] = true
				changed = true
			}
		}
		if changed {
			var all []string
			for l := range lines {
				all = append(all, l)
			}
			sort.Strings(all)
			os.WriteFile(filepath.Join(harnessDir, "go.sum"), []byte(strings.Join(all, "\n")+"\n"), 0o644)
		}
	})
}

func splitmix(x uint64) uint64 {
	x += 0x9e3779b97f4a7c15
	z := x
	z = (z ^ (z >> 30)) * 0xbf58476d1ce4e5b9
	z = (z ^ (z >> 27)) * 0x94d049bb133111eb
	return z ^ (z >> 31)
}

func verifSeed() int64 {
	if s := os.Getenv("VERIF_SEED"); s != "" {
		if n, err := strconv.ParseInt(s, 10, 64); err == nil {
			return n
		}
		h := fnv.New64a()
		h.Write([]byte(s))
		return int64(h.Sum64() >> 1)
	}
	return 20260927
}

type job struct {
	idx    int
	sub    *Sub
	shard  int
	checks int
	seed   uint64
	bin    string
	fuzz   bool
	out    bytes.Buffer
	code   int
	timed  bool
	dur    time.Duration
	// skipped: not run, or cut short, because VERIF_FAILFAST stopped the run after another job's failure
	skipped bool
}

var failFast atomic.Bool

func haveNetns() bool {
	cmd := exec.Command("unshare", "-n", "sh", "-c", "ip link set lo up")
	return cmd.Run() == nil
}

func runTier(p *Prop, tier string) int {
	start := time.Now()
	seed := verifSeed()
	pruneStale()
	work := filepath.Join(verifDir, ".work", fmt.Sprintf("%s.%d", p.ID, os.Getpid()))
	os.RemoveAll(work)
	os.MkdirAll(work, 0o755)
	defer func() {
		if os.Getenv("VERIF_KEEP_WORK") == "" {
			os.RemoveAll(work)
		}
		removeBuilt()
	}()

	needRace, needPlain := false, false
	for _, s := range p.Subs {
		n := s.Quick
		if tier == "thorough" {
			n = s.Thorough
			if s.Fuzz != "" && s.FuzzSecs > 0 {
				n = 1
			}
		}
		if n == 0 {
			continue
		}
		if s.Race {
			needRace = true
		} else {
			needPlain = true
		}
	}
	var bin, raceBin string
	var err error
	if needPlain || !needRace {
		if bin, err = build(p, false); err != nil {
			fmt.Println(err)
			fmt.Printf("INCONCLUSIVE property=%s reason=build-failed\n", p.ID)
			return 2
		}
	}
	if needRace {
		if raceBin, err = build(p, true); err != nil {
			fmt.Println(err)
			fmt.Printf("INCONCLUSIVE property=%s reason=race-build-failed\n", p.ID)
			return 2
		}
	}

	netns := p.Netns && haveNetns()

	// jobs
	var jobs []*job
	for si := range p.Subs {
		s := &p.Subs[si]
		total, shards := s.Quick, s.QShards
		if tier == "thorough" {
			total, shards = s.Thorough, s.TShards
		}
		if shards <= 0 {
			shards = 1
		}
		b := bin
		if s.Race {
			b = raceBin
		}
		if tier == "thorough" && s.Fuzz != "" && s.FuzzSecs > 0 {
			jobs = append(jobs, &job{sub: s, bin: b, fuzz: true})
			continue
		}
		if total <= 0 {
			continue
		}
		if s.Fuzz != "" {
			continue
		}
		per := (total + shards - 1) / shards
		for k := 0; k < shards; k++ {
			jobs = append(jobs, &job{sub: s, shard: k, checks: per, bin: b})
		}
	}
	for i, j := range jobs {
		j.idx = i
		j.seed = splitmix(uint64(seed)*1000003+uint64(i)*7919+hashStr(p.ID+j.sub.Name)) | 1
	}

	timeout := time.Duration(p.QuickSecs) * time.Second
	if tier == "thorough" {
		timeout = time.Duration(p.ThorSecs) * time.Second
	}
	if timeout == 0 {
		timeout = 10 * time.Minute
		if tier == "thorough" {
			timeout = 60 * time.Minute
		}
	}
	if v, err := strconv.Atoi(os.Getenv("VERIF_TIMEOUT_S")); err == nil && v > 0 {
		timeout = time.Duration(v) * time.Second // debugging aid
	}
	ctx, cancel := context.WithTimeout(context.Background(), timeout)
	defer cancel()

	par := 16
	if s := os.Getenv("VERIF_PAR"); s != "" {
		if n, err := strconv.Atoi(s); err == nil && n > 0 {
			par = n
		}
	}
	sem := make(chan struct{}, par)
	var wg sync.WaitGroup
	// fuzz jobs use all cores themselves: run them first, one at a time.
	for _, j := range jobs {
		if j.fuzz {
			runJob(ctx, p, j, tier, seed, work, netns, timeout)
		}
	}
	for _, j := range jobs {
		if j.fuzz {
			continue
		}
		wg.Add(1)
		sem <- struct{}{}
		go func(j *job) {
			defer wg.Done()
			defer func() { <-sem }()
			if failFast.Load() {
				j.skipped = true
				return
			}
			runJob(ctx, p, j, tier, seed, work, netns, timeout)
			if os.Getenv("VERIF_FAILFAST") != "" && j.code == 1 && !j.timed {
				// tooling mode (seed sweeps): one failing job settles the outcome, stop the others
				failFast.Store(true)
				cancel()
			}
		}(j)
	}
	wg.Wait()

	// collect
	violations := 0
	inconclusive := 0
	var replayPaths []string
	known := map[string]bool{}
	for _, j := range jobs {
		sc := bufio.NewScanner(bytes.NewReader(j.out.Bytes()))
		sc.Buffer(make([]byte, 1<<20), 1<<24)
		for sc.Scan() {
			l := sc.Text()
			if strings.HasPrefix(l, "KNOWN-FINDING: ") && !known[l] {
				known[l] = true
				fmt.Println(l)
			}
		}
	}
	// harness trouble that made cases be discarded: show what it was
	trouble := map[string]int{}
	for _, j := range jobs {
		for _, l := range strings.Split(j.out.String(), "\n") {
			if i := strings.Index(l, "harness trouble (case discarded): "); i >= 0 {
				m := l[i+len("harness trouble (case discarded): "):]
				m = strings.ReplaceAll(m, work, "$WORK")
				if len(m) > 320 {
					m = m[:320]
				}
				trouble[m]++
			}
		}
	}
	if len(trouble) > 0 {
		n := 0
		for m, k := range trouble {
			if n < 4 {
				fmt.Printf("NOTE: %d case(s) discarded for harness trouble: %s\n", k, m)
			}
			n++
		}
	}
	// replays written by failing properties
	rfiles, _ := filepath.Glob(filepath.Join(work, "replays", "*.json"))
	sort.Strings(rfiles)
	seenSub := map[string]bool{}
	for _, rf := range rfiles {
		b, err := os.ReadFile(rf)
		if err != nil {
			continue
		}
		var hdr struct {
			Sub   string `json:"sub"`
			Error string `json:"error"`
		}
		json.Unmarshal(b, &hdr)
		h := fnv.New64a()
		h.Write(b)
		dst := filepath.Join(verifDir, "replays", p.ID, fmt.Sprintf("%s-%016x.json", hdr.Sub, h.Sum64()))
		os.MkdirAll(filepath.Dir(dst), 0o755)
		os.WriteFile(dst, b, 0o644)
		violations++
		if !seenSub[hdr.Sub] {
			seenSub[hdr.Sub] = true
			replayPaths = append(replayPaths, dst)
			fmt.Printf("--- %s/%s: %s\n", p.ID, hdr.Sub, firstLines(hdr.Error, 12))
		}
	}
	for _, j := range jobs {
		switch {
		case j.code == 0:
		case j.timed:
			inconclusive++
			dump := filepath.Join(verifDir, ".build", fmt.Sprintf("timeout.%s.%s.%d.log", p.ID, j.sub.Name, j.shard))
			os.WriteFile(dump, j.out.Bytes(), 0o644)
			fmt.Printf("--- job %s#%d timed out after %s (output with the goroutine dump: %s)\n%s\n", j.sub.Name, j.shard, j.dur.Round(time.Second), dump, tail(j.out.String(), 40))
		case j.code == 1 && violations > 0:
			// accounted for by the replay files
		default:
			inconclusive++
			fmt.Printf("--- job %s#%d exited %d without a replay file (harness trouble, not a verdict)\n%s\n", j.sub.Name, j.shard, j.code, tail(j.out.String(), 60))
		}
	}

	// evidence
	ev := mergeEvidence(p, tier, seed, work, jobs, violations, time.Since(start), netns)
	os.MkdirAll(filepath.Join(verifDir, "evidence"), 0o755)
	eb, _ := json.MarshalIndent(ev, "", " ")
	evTmp := filepath.Join(verifDir, "evidence", fmt.Sprintf(".%s.%d.tmp", p.ID, os.Getpid()))
	if os.Getenv("VERIF_EVIDENCE_SKIP") != "" {
		// runs against a deliberately broken tree (seed sweeps) must not replace the evidence of the real one
	} else if os.WriteFile(evTmp, append(eb, '\n'), 0o644) == nil {
		os.Rename(evTmp, filepath.Join(verifDir, "evidence", p.ID+".json"))
	}

	if violations > 0 {
		for _, rp := range replayPaths {
			fmt.Printf("VIOLATION property=%s replay=%s\n", p.ID, rp)
		}
		return 1
	}
	if inconclusive > 0 {
		fmt.Printf("INCONCLUSIVE property=%s jobs=%d\n", p.ID, inconclusive)
		return 2
	}
	cov := ev["coverage"].(map[string]interface{})
	fmt.Printf("OK property=%s tier=%s evaluations=%v distinct_nontrivial=%v wall=%.1fs\n", p.ID, tier, cov["evaluations"], cov["distinct_nontrivial"], time.Since(start).Seconds())
	return 0
}

func hashStr(s string) uint64 {
	h := fnv.New64a()
	h.Write([]byte(s))
	return h.Sum64()
}

func firstLines(s string, n int) string {
	ls := strings.Split(s, "\n")
	if len(ls) > n {
		ls = append(ls[:n], "...")
	}
	return strings.Join(ls, "\n")
}

func tail(s string, n int) string {
	ls := strings.Split(strings.TrimRight(s, "\n"), "\n")
	if len(ls) > n {
		ls = ls[len(ls)-n:]
	}
	return strings.Join(ls, "\n")
}

func runJob(ctx context.Context, p *Prop, j *job, tier string, seed int64, work string, netns bool, timeout time.Duration) {
	t0 := time.Now()
	jdir := filepath.Join(work, fmt.Sprintf("job%d", j.idx))
	os.MkdirAll(jdir, 0o755)
	args := []string{"-test.run", "^(" + j.sub.Run + ")$", "-test.timeout", (timeout + time.Minute).String(),
		"-rapid.checks", strconv.Itoa(j.checks), "-rapid.seed", strconv.FormatUint(j.seed, 10), "-rapid.nofailfile",
		"-rapid.shrinktime", "20s"}
	if j.sub.Steps > 0 {
		args = append(args, "-rapid.steps", strconv.Itoa(j.sub.Steps))
	}
	if j.fuzz {
		// seed corpus for the native fuzzer: corpus/<ID>/fuzz/<Target>/*
		src := filepath.Join(verifDir, "corpus", p.ID, "fuzz", j.sub.Fuzz)
		dst := filepath.Join(jdir, "testdata", "fuzz", j.sub.Fuzz)
		os.MkdirAll(dst, 0o755)
		copyDir(src, dst)
		args = []string{"-test.run", "^$", "-test.fuzz", "^" + j.sub.Fuzz + "$", "-test.fuzztime", fmt.Sprintf("%ds", j.sub.FuzzSecs),
			"-test.fuzzcachedir", filepath.Join(jdir, "fuzzcache"), "-test.timeout", (timeout + time.Minute).String()}
	}
	var cmd *exec.Cmd
	limit := ""
	if j.sub.MemLimitMB > 0 {
		limit = fmt.Sprintf("ulimit -v %d; ", j.sub.MemLimitMB*1024)
	}
	if netns {
		sh := limit + `ip link set lo up; exec "$@"`
		a := append([]string{"-n", "sh", "-c", sh, "sh", j.bin}, args...)
		cmd = exec.CommandContext(ctx, "unshare", a...)
	} else if limit != "" {
		a := append([]string{"-c", limit + `exec "$@"`, "sh", j.bin}, args...)
		cmd = exec.CommandContext(ctx, "sh", a...)
	} else {
		cmd = exec.CommandContext(ctx, j.bin, args...)
	}
	cmd.Dir = jdir
	cmd.Env = append(os.Environ(),
		"VERIF_OUT="+work, "VERIF_SHARD="+strconv.Itoa(j.idx), "VERIF_TIER="+tier,
		"VERIF_SEED="+strconv.FormatInt(seed, 10), "VERIF_N="+strconv.Itoa(j.checks),
		"VERIF_KF="+filepath.Join(verifDir, "known_findings.json"),
		"VERIF_CORPUS="+filepath.Join(verifDir, "corpus", p.ID),
		"VERIF_NETNS="+map[bool]string{true: "1", false: "0"}[netns],
		"TMPDIR="+jdir, "GOTRACEBACK=all")
	cmd.Stdout = &j.out
	cmd.Stderr = &j.out
	cmd.SysProcAttr = &syscall.SysProcAttr{Setpgid: true}
	// on a timeout ask the Go runtime for its goroutine dump first (SIGQUIT), kill a little later
	cmd.Cancel = func() error {
		pid := cmd.Process.Pid
		if failFast.Load() {
			return syscall.Kill(-pid, syscall.SIGKILL) // tooling mode: no dump wanted, stop the whole group at once
		}
		syscall.Kill(pid, syscall.SIGQUIT)
		go func() {
			time.Sleep(4 * time.Second)
			syscall.Kill(-pid, syscall.SIGKILL) // the whole group: child processes of the test too
		}()
		return nil
	}
	cmd.WaitDelay = 10 * time.Second
	err := cmd.Run()
	j.dur = time.Since(t0)
	if cmd.Process != nil {
		// whatever the test process started (child processes of C08/C16) goes with it
		syscall.Kill(-cmd.Process.Pid, syscall.SIGKILL)
	}
	if err != nil {
		if ctx.Err() != nil && failFast.Load() {
			j.skipped = true
			j.code = 0
		} else if ctx.Err() != nil {
			j.timed = true
			j.code = 2
		} else if ee, ok := err.(*exec.ExitError); ok {
			j.code = ee.ExitCode()
			if j.code == 0 {
				j.code = 2
			}
		} else {
			j.code = 2
			fmt.Fprintf(&j.out, "\nvcheck: %v\n", err)
		}
	}
	// a crash is a verdict only with the signature of an unrecovered Go panic / fatal runtime error that is
	// not a memory shortage; a killed or vanished worker stays inconclusive
	if !j.fuzz && !j.timed && j.sub.CrashIsViolation && j.code != 0 && crashed(j.out.String()) && !outOfMemory(j.out.String()) {
		cur := filepath.Join(work, fmt.Sprintf("current.%d.json", j.idx))
		if b, err := os.ReadFile(cur); err == nil {
			var rf map[string]interface{}
			if json.Unmarshal(b, &rf) == nil {
				why := ""
				for _, l := range strings.Split(j.out.String(), "\n") {
					if strings.HasPrefix(l, "panic: ") || strings.HasPrefix(l, "fatal error: ") {
						why = l
						break
					}
				}
				rf["error"] = "the test process crashed while running this case: " + why + "\n" + tail(j.out.String(), 25)
				out, _ := json.MarshalIndent(rf, "", " ")
				os.MkdirAll(filepath.Join(work, "replays"), 0o755)
				os.WriteFile(filepath.Join(work, "replays", fmt.Sprintf("%s.crash%d.json", j.sub.Name, j.idx)), out, 0o644)
				j.code = 1
			}
		}
	}
	if j.fuzz && j.code != 0 {
		// a crasher found by the native fuzzer: the saved input is the reproducible unit
		files, _ := filepath.Glob(filepath.Join(jdir, "testdata", "fuzz", j.sub.Fuzz, "*"))
		for _, f := range files {
			if fi, err := os.Stat(f); err == nil && fi.ModTime().After(t0) {
				b, _ := os.ReadFile(f)
				rf := map[string]interface{}{"property": p.ID, "sub": j.sub.Name, "error": tail(j.out.String(), 30),
					"case": map[string]interface{}{"go_fuzz_corpus_file": string(b), "target": j.sub.Fuzz}}
				out, _ := json.MarshalIndent(rf, "", " ")
				os.MkdirAll(filepath.Join(work, "replays"), 0o755)
				os.WriteFile(filepath.Join(work, "replays", fmt.Sprintf("%s.fuzz%d.json", j.sub.Name, j.idx)), out, 0o644)
				break
			}
		}
	}
	if os.Getenv("VERIF_VERBOSE") != "" {
		fmt.Printf("=== job %d %s#%d code=%d dur=%s\n%s\n", j.idx, j.sub.Name, j.shard, j.code, j.dur.Round(time.Millisecond), tail(j.out.String(), 30))
	}
}

// crashed: did the process die from an unrecovered panic or a fatal runtime error?
func crashed(out string) bool {
	return strings.Contains(out, "\npanic: ") || strings.HasPrefix(out, "panic: ") || strings.Contains(out, "fatal error: ") || strings.Contains(out, "\ngoroutine ") && strings.Contains(out, "[running]")
}

func outOfMemory(out string) bool {
	return strings.Contains(out, "out of memory") || strings.Contains(out, "cannot allocate memory") || strings.Contains(out, "failed to create new OS thread")
}

func copyDir(src, dst string) {
	ents, err := os.ReadDir(src)
	if err != nil {
		return
	}
	for _, e := range ents {
		if e.IsDir() {
			continue
		}
		in, err := os.Open(filepath.Join(src, e.Name()))
		if err != nil {
			continue
		}
		out, err := os.Create(filepath.Join(dst, e.Name()))
		if err == nil {
			io.Copy(out, in)
			out.Close()
		}
		in.Close()
	}
}

type subStats struct {
	Evaluations int            `json:"evaluations"`
	Nontrivial  int            `json:"nontrivial_evaluations"`
	Classes     map[string]int `json:"classes"`
	Excluded    map[string]int `json:"excluded_known,omitempty"`
	Skipped     map[string]int `json:"skipped,omitempty"`
	Samples     []interface{}  `json:"samples"`
	Exhaustive  bool           `json:"exhaustive,omitempty"`
	Extra       map[string]int `json:"extra,omitempty"`
}

type shardStats struct {
	Shard int                  `json:"shard"`
	Subs  map[string]*subStats `json:"subs"`
	Known []string             `json:"known_findings_printed"`
}

func addMap(dst, src map[string]int) map[string]int {
	if len(src) == 0 {
		return dst
	}
	if dst == nil {
		dst = map[string]int{}
	}
	for k, v := range src {
		dst[k] += v
	}
	return dst
}

func mergeEvidence(p *Prop, tier string, seed int64, work string, jobs []*job, violations int, wall time.Duration, netns bool) map[string]interface{} {
	files, _ := filepath.Glob(filepath.Join(work, "stats.*.json"))
	merged := map[string]*subStats{}
	knownPrinted := map[string]bool{}
	for _, f := range files {
		b, err := os.ReadFile(f)
		if err != nil {
			continue
		}
		var ss shardStats
		if json.Unmarshal(b, &ss) != nil {
			continue
		}
		for _, k := range ss.Known {
			knownPrinted[k] = true
		}
		for name, s := range ss.Subs {
			m := merged[name]
			if m == nil {
				m = &subStats{}
				merged[name] = m
			}
			m.Evaluations += s.Evaluations
			m.Nontrivial += s.Nontrivial
			m.Classes = addMap(m.Classes, s.Classes)
			m.Excluded = addMap(m.Excluded, s.Excluded)
			m.Skipped = addMap(m.Skipped, s.Skipped)
			m.Extra = addMap(m.Extra, s.Extra)
			if len(m.Samples) < 4 {
				for _, x := range s.Samples {
					if len(m.Samples) < 4 {
						m.Samples = append(m.Samples, x)
					}
				}
			}
			m.Exhaustive = m.Exhaustive || s.Exhaustive
		}
	}
	// distinct non-trivial: union of the shards' hash sets
	hset := map[uint64]struct{}{}
	hfiles, _ := filepath.Glob(filepath.Join(work, "hashes.*.bin"))
	for _, f := range hfiles {
		b, err := os.ReadFile(f)
		if err != nil {
			continue
		}
		for i := 0; i+8 <= len(b); i += 8 {
			hset[binary.LittleEndian.Uint64(b[i:])] = struct{}{}
		}
	}
	evals := 0
	var samples []interface{}
	subsOut := map[string]interface{}{}
	classes := map[string]int{}
	excluded := map[string]int{}
	skipped := map[string]int{}
	allExhaustive := len(merged) > 0
	names := make([]string, 0, len(merged))
	for n := range merged {
		names = append(names, n)
	}
	sort.Strings(names)
	for _, n := range names {
		s := merged[n]
		evals += s.Evaluations
		for i, x := range s.Samples {
			if i < 3 {
				samples = append(samples, map[string]interface{}{"sub": n, "case": x})
			}
		}
		so := map[string]interface{}{"evaluations": s.Evaluations, "nontrivial_evaluations": s.Nontrivial, "classes": s.Classes}
		if s.Exhaustive {
			so["exhaustive"] = true
		} else {
			allExhaustive = false
		}
		if len(s.Extra) > 0 {
			so["extra"] = s.Extra
		}
		if len(s.Skipped) > 0 {
			so["skipped"] = s.Skipped
		}
		if len(s.Excluded) > 0 {
			so["excluded_known"] = s.Excluded
		}
		subsOut[n] = so
		for k, v := range s.Classes {
			classes[n+":"+k] += v
		}
		for k, v := range s.Excluded {
			excluded[k] += v
		}
		for k, v := range s.Skipped {
			skipped[n+":"+k] += v
		}
	}
	var jobInfo []map[string]interface{}
	for _, j := range jobs {
		ji := map[string]interface{}{"sub": j.sub.Name, "shard": j.shard, "checks_requested": j.checks, "rapid_seed": j.seed, "exit": j.code, "wall_s": round1(j.dur.Seconds())}
		if j.fuzz {
			ji["native_fuzz_target"] = j.sub.Fuzz
			ji["native_fuzz_seconds"] = j.sub.FuzzSecs
			ji["native_fuzz_summary"] = fuzzSummary(j.out.String())
		}
		jobInfo = append(jobInfo, ji)
	}
	var kl []string
	for k := range knownPrinted {
		kl = append(kl, k)
	}
	sort.Strings(kl)
	cov := map[string]interface{}{
		"evaluations":         evals,
		"distinct_nontrivial": len(hset),
		"rule":                p.Rule,
		"samples":             samples,
		"subchecks":           subsOut,
		"classes":             classes,
		"excluded_known":      excluded,
		"skipped":             skipped,
		"jobs":                jobInfo,
		"known_findings":      kl,
		"network_namespace":   netns,
	}
	if allExhaustive {
		cov["exhaustive"] = true
	}
	level := p.Level
	if level == "" {
		level = "exploration"
	}
	return map[string]interface{}{
		"property_id": p.ID,
		"tier":        tier,
		"seed":        seed,
		"level":       level,
		"coverage":    cov,
		"assumptions": p.Assumptions,
		"wall_s":      round1(wall.Seconds()),
		"violations":  violations,
	}
}

func fuzzSummary(out string) string {
	ls := strings.Split(strings.TrimSpace(out), "\n")
	last := ""
	for _, l := range ls {
		if strings.HasPrefix(l, "fuzz: elapsed") {
			last = l
		}
	}
	return last
}

func round1(f float64) float64 { return float64(int(f*10+0.5)) / 10 }

func runReplay(p *Prop, file string) int {
	abs, err := filepath.Abs(file)
	if err != nil {
		fmt.Fprintln(os.Stderr, err)
		return 2
	}
	if _, err := os.Stat(abs); err != nil {
		fmt.Fprintln(os.Stderr, err)
		return 2
	}
	bin, err := build(p, false)
	if err != nil {
		fmt.Println(err)
		return 2
	}
	work := filepath.Join(verifDir, ".work", fmt.Sprintf("%s-replay.%d", p.ID, os.Getpid()))
	os.RemoveAll(work)
	os.MkdirAll(work, 0o755)
	defer os.RemoveAll(work)
	defer removeBuilt()
	args := []string{"-test.run", "^TestReplay$", "-test.v", "-test.timeout", "10m"}
	var cmd *exec.Cmd
	nsEnv := "VERIF_NETNS=0"
	if p.Netns && haveNetns() {
		a := append([]string{"-n", "sh", "-c", `ip link set lo up; exec "$@"`, "sh", bin}, args...)
		cmd = exec.Command("unshare", a...)
		nsEnv = "VERIF_NETNS=1"
	} else {
		cmd = exec.Command(bin, args...)
	}
	cmd.Dir = work
	cmd.Env = append(os.Environ(), nsEnv, "VERIF_OUT="+work, "VERIF_REPLAY="+abs, "VERIF_TIER=quick",
		"VERIF_KF="+filepath.Join(verifDir, "known_findings.json"), "TMPDIR="+work, "GOTRACEBACK=all")
	var captured bytes.Buffer
	cmd.Stdout = io.MultiWriter(os.Stdout, &captured)
	cmd.Stderr = io.MultiWriter(os.Stderr, &captured)
	if err := cmd.Run(); err != nil {
		if ee, ok := err.(*exec.ExitError); ok && ee.ExitCode() == 1 {
			fmt.Printf("VIOLATION property=%s replay=%s\n", p.ID, abs)
			return 1
		}
		// the recorded case crashed the whole test process again: for sub-checks where a crash is a verdict
		// that reproduces the violation
		if rb, rerr := os.ReadFile(abs); rerr == nil {
			var hdr struct {
				Sub string `json:"sub"`
			}
			json.Unmarshal(rb, &hdr)
			for _, sb := range p.Subs {
				if sb.Name == hdr.Sub && sb.CrashIsViolation && crashed(captured.String()) && !outOfMemory(captured.String()) {
					fmt.Printf("VIOLATION property=%s replay=%s\n", p.ID, abs)
					return 1
				}
			}
		}
		fmt.Println("vcheck: replay:", err)
		return 2
	}
	if why, err := os.ReadFile(filepath.Join(work, "replay.inconclusive")); err == nil {
		fmt.Printf("REPLAY-INCONCLUSIVE property=%s replay=%s reason=%s\n", p.ID, abs, strings.SplitN(string(why), "\n", 2)[0])
		return 2
	}
	fmt.Printf("REPLAY-PASS property=%s replay=%s\n", p.ID, abs)
	return 0
}
