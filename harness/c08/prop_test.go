package c08

import (
	"fmt"
	"os"
	"path/filepath"
	"reflect"
	"strings"
	"sync/atomic"
	"testing"
	"time"

	"pgregory.net/rapid"

	"verif/harness/internal/child"
	"verif/harness/internal/vt"
)

func TestMain(m *testing.M) {
	child.MaybeRun()
	vt.Property = "C08"
	vt.Main(m, "VERIF_NETNS")
}

// ---------------------------------------------------------------------------

type Attempt struct {
	Op    string `json:"op"`    // validate | load | reload
	Kind  string `json:"kind"`  // "valid" or the kind of failure
	K     int    `json:"k"`     // marker number for valid configurations
	Sites int    `json:"sites"` // 1 or 2 sites
	Auth  bool   `json:"auth"`  // uses htpasswd
	Hook  bool   `json:"hook"`  // has an `on` hook
	// Repair: after this failed attempt the operator repairs the htpasswd file it tripped over
	// (creates the missing one, rewrites the malformed one, adds the missing user).
	Repair bool `json:"repair,omitempty"`
	// AuthUse: which htpasswd entry a valid configuration with Auth uses: "" = bob in ht.txt,
	// or an entry that only exists since a repair: "dave" (ht.txt), "carol-bad" (bad-ht.txt), "carol-missing" (missing-ht.txt)
	AuthUse string `json:"auth_use,omitempty"`
	// Roll: the (failing) configuration names other rotate_* values for the running site's access log;
	// after the failure the running site writes more than a megabyte of log.
	Roll bool `json:"roll,omitempty"`
	// Tail (kind htpasswd-corrupted): the damaged line comes after the file's valid lines instead of
	// replacing them, so that parsing fails part-way
	Tail bool `json:"tail,omitempty"`
}

const shaPassword = "{SHA}W6ph5Mm5Pz8GgiULbPgzG37mj9g="

// repairStep is what the operator does after the failed attempt a.
func repairStep(a Attempt) (child.Step, string, bool) {
	switch a.Kind {
	case "missing-htpasswd":
		return child.Step{Op: "writefile", Path: "missing-ht.txt", Text: "carol:" + shaPassword + "\n"}, "carol-missing", true
	case "bad-htpasswd":
		return child.Step{Op: "writefile", Path: "bad-ht.txt", Text: "alice:" + shaPassword + "\ncarol:" + shaPassword + "\n"}, "carol-bad", true
	case "htpasswd-user-missing":
		return child.Step{Op: "writefile", Path: "ht.txt", Text: "bob:" + shaPassword + "\ndave:" + shaPassword + "\n"}, "dave", true
	}
	return child.Step{}, "", false
}

type Case struct {
	Attempts []Attempt `json:"attempts"` // the last one is valid
	QUIC     bool      `json:"quic,omitempty"` // the process runs with -quic: every server also binds its UDP port
}

func validText(a Attempt, dir string) string {
	var sb strings.Builder
	fmt.Fprintf(&sb, "http://localhost:8081 {\n\troot %s\n\theader / X-Marker v%d\n\tstatus 204 /\n\tlog / %s/access.log\n", dir, a.K, dir)
	if a.Auth {
		switch a.AuthUse {
		case "dave":
			fmt.Fprintf(&sb, "\tbasicauth /secret dave htpasswd=ht.txt\n")
		case "carol-bad":
			fmt.Fprintf(&sb, "\tbasicauth /secret carol htpasswd=bad-ht.txt\n")
		case "carol-missing":
			fmt.Fprintf(&sb, "\tbasicauth /secret carol htpasswd=missing-ht.txt\n")
		default:
			fmt.Fprintf(&sb, "\tbasicauth /secret bob htpasswd=ht.txt\n")
		}
	}
	if a.Hook {
		sb.WriteString("\ton startup true\n")
	}
	sb.WriteString("}\n")
	if a.Sites > 1 {
		fmt.Fprintf(&sb, "http://localhost:8082 {\n\theader / X-Marker w%d\n\tstatus 204 /\n}\n", a.K)
	}
	return sb.String()
}

var failureKinds = []string{"lex", "unknown-directive", "bad-arg", "bad-arg-after-hook", "missing-htpasswd", "bad-htpasswd", "htpasswd-user-missing", "missing-import", "missing-cert", "port-in-use", "port-in-use-first-site-ok", "udp-port-in-use", "bind-unavailable", "startup-callback", "tls-mix", "bad-proxy", "bad-tls-arg", "conf-missing", "htpasswd-corrupted"}

func invalidText(a Attempt, dir string) string {
	if a.Kind == "htpasswd-corrupted" {
		a.Auth = true // the configuration names ht.txt, which is malformed while this attempt is made
	}
	base := validText(Attempt{K: 900 + a.K, Sites: a.Sites, Auth: a.Auth, Hook: a.Hook}, dir)
	if a.Roll {
		base = strings.Replace(base, "/access.log\n", "/access.log {\n\t\trotate_size 1\n\t\trotate_keep 1\n\t}\n", 1)
	}
	inject := func(line string) string {
		return strings.Replace(base, "\tstatus 204 /\n", "\tstatus 204 /\n\t"+line+"\n", 1)
	}
	switch a.Kind {
	case "htpasswd-corrupted":
		return base
	case "conf-missing":
		// only as a reload by signal: the configuration file is not there when the loader looks for it
		return child.RemoveConf
	case "lex":
		return "localhost:8081 {\n\tgzip {\n"
	case "unknown-directive":
		return inject("nosuchdirective on")
	case "bad-arg":
		return inject("status abc /x")
	case "bad-arg-after-hook":
		return inject("on startup true") + "http://localhost:8083 {\n\tstatus notanumber /\n}\n"
	case "missing-htpasswd":
		return inject("basicauth /other carol htpasswd=missing-ht.txt")
	case "bad-htpasswd":
		return inject("basicauth /other carol htpasswd=bad-ht.txt")
	case "htpasswd-user-missing":
		return inject("basicauth /other dave htpasswd=ht.txt")
	case "missing-import":
		return inject("import nothere.conf")
	case "missing-cert":
		return base + fmt.Sprintf("https://localhost:8443 {\n\ttls %s/missing.crt %s/missing.key\n}\n", dir, dir)
	case "port-in-use", "port-in-use-first-site-ok":
		return base + "http://localhost:8099 {\n\tstatus 204 /\n}\nhttp://localhost:8084 {\n\tstatus 204 /\n}\nhttp://localhost:8085 {\n\tstatus 204 /\n}\n"
	case "udp-port-in-use":
		// with -quic on, the TCP port is free but the UDP port of the same number is taken
		return base + "http://localhost:8087 {\n\tstatus 204 /\n}\nhttp://localhost:8088 {\n\tstatus 204 /\n}\n"
	case "bind-unavailable":
		return base + "http://localhost:8086 {\n\tbind 203.0.113.7\n\tstatus 204 /\n}\n"
	case "startup-callback":
		return inject("errors /nonexistent-dir-xyz/sub/errors.log")
	case "tls-mix":
		return base + "https://a.test:8443 {\n\ttls self_signed\n}\nhttp://b.test:8443 {\n\tstatus 204 /\n}\n"
	case "bad-proxy":
		return inject("proxy /p 127.0.0.1:9 {\n\t\thealth_check /h\n\t\tpolicy nosuchpolicy\n\t}")
	case "bad-tls-arg":
		return base + "https://localhost:8443 {\n\ttls self_signed {\n\t\tprotocols tls9\n\t}\n}\n"
	}
	return "}"
}

func text(a Attempt, dir string) string {
	if a.Kind == "valid" {
		return validText(a, dir)
	}
	return invalidText(a, dir)
}

var seq int64

func mkdir() string {
	d := filepath.Join(vt.WorkDir, fmt.Sprintf("c08-%d", atomic.AddInt64(&seq, 1)))
	os.MkdirAll(d, 0o755)
	os.WriteFile(filepath.Join(d, "ht.txt"), []byte("bob:{SHA}W6ph5Mm5Pz8GgiULbPgzG37mj9g=\n"), 0o644)
	os.WriteFile(filepath.Join(d, "bad-ht.txt"), []byte("this line has no colon\n"), 0o644)
	return d
}

func script(c *Case, dir string, only int) *child.Script {
	sc := &child.Script{Dir: dir, Probes: []string{"8081|localhost", "8082|localhost", "8083|localhost", "8084|localhost", "8085|localhost"}}
	occupied, occupiedUDP := false, false
	htGood := "bob:" + shaPassword + "\n" // the good content of ht.txt as it stands (a repair adds dave)
	sc.QUIC = c.QUIC
	atts := c.Attempts
	if only >= 0 {
		atts = atts[only:]
	}
	if only >= 0 {
		// the fresh process starts in the environment the history ends in
		for _, a := range c.Attempts[:only] {
			if st, _, ok := repairStep(a); ok && a.Repair {
				sc.Steps = append(sc.Steps, st)
			}
		}
	}
	for _, a := range atts {
		t := text(a, dir)
		if a.Kind == "udp-port-in-use" && !occupiedUDP {
			sc.Steps = append(sc.Steps, child.Step{Op: "occupy-udp", Port: "8087"})
			occupiedUDP = true
		}
		if strings.HasPrefix(a.Kind, "port-in-use") && !occupied {
			sc.Steps = append(sc.Steps, child.Step{Op: "occupy", Port: "8099"})
			occupied = true
		}
		op := a.Op
		if only >= 0 {
			op = "load" // the fresh process loads it as its first configuration
		}
		if a.Kind == "htpasswd-corrupted" {
			// the htpasswd file that earlier loads have read is malformed while this attempt is made
			bad := "this line has no colon\n"
			if a.Tail {
				bad = htGood + bad
			}
			sc.Steps = append(sc.Steps, child.Step{Op: "writefile", Path: "ht.txt", Text: bad})
		}
		sc.Steps = append(sc.Steps, child.Step{Op: op, Text: t})
		if a.Kind == "htpasswd-corrupted" {
			// the very same attempt once more with nothing changed, then the operator puts the file back
			sc.Steps = append(sc.Steps, child.Step{Op: op, Text: t, Tag: "again"}, child.Step{Op: "writefile", Path: "ht.txt", Text: htGood})
		}
		if a.Roll && a.Kind != "valid" && only < 0 {
			sc.Steps = append(sc.Steps, child.Step{Op: "hammer", Port: "8081", N: 320})
		}
		if st, _, ok := repairStep(a); ok && a.Repair && only < 0 {
			sc.Steps = append(sc.Steps, st)
			if st.Path == "ht.txt" {
				htGood = st.Text
			}
		}
	}
	return sc
}

func same(a, b child.Obs) string {
	if !reflect.DeepEqual(a.Listening, b.Listening) {
		return fmt.Sprintf("listening sockets %v vs %v", a.Listening, b.Listening)
	}
	if !reflect.DeepEqual(a.ExtraFDs, b.ExtraFDs) {
		return fmt.Sprintf("listening sockets held by more than one descriptor %v vs %v", a.ExtraFDs, b.ExtraFDs)
	}
	if a.Hooks != b.Hooks {
		return fmt.Sprintf("%d event hooks vs %d", a.Hooks, b.Hooks)
	}
	if a.Instances != b.Instances {
		return fmt.Sprintf("%d live instances vs %d", a.Instances, b.Instances)
	}
	if !reflect.DeepEqual(a.Answers, b.Answers) {
		return fmt.Sprintf("answers of the sites %v vs %v", a.Answers, b.Answers)
	}
	return ""
}

func runCase(c *Case) (nontrivial bool, err error) {
	if os.Getenv("VERIF_NETNS") != "1" {
		return false, fmt.Errorf("HARNESS: C08 needs a private network namespace (fixed ports)")
	}
	dirA, dirB := mkdir(), mkdir()
	defer os.RemoveAll(dirA)
	defer os.RemoveAll(dirB)
	scA := script(c, dirA, -1)
	resA, e := child.Spawn(scA, 90*time.Second)
	if e != nil {
		return false, fmt.Errorf("HARNESS: child A: %v", e)
	}
	// map observations back to attempts (occupy steps are interleaved)
	var obs []child.Obs
	for _, o := range resA.Obs {
		if o.Tag == "again" {
			if o.OK {
				return true, fmt.Errorf("attempt %d (a configuration whose htpasswd file is malformed) was rejected, and accepted when the very same attempt was made again with nothing changed; history %v", len(obs)-1, kinds(c.Attempts[:len(obs)]))
			}
			continue
		}
		if o.Op == "hammer" {
			// the running site (if there is one) has written > 1 MB of access log after a failed attempt whose
			// configuration asked for rotation at 1 MB: the running site's own settings (100 MB) still apply
			if o.OK && len(o.Files) > 1 {
				nontrivial = true
				return true, fmt.Errorf("after attempt %d (a failing configuration that names rotate_size 1 / rotate_keep 1 for the running site's access log) the running site rotated its log at the rejected configuration's limit: log files %v; history %v", len(obs)-1, o.Files, kinds(c.Attempts[:len(obs)]))
			}
			continue
		}
		if o.Op != "occupy" && o.Op != "occupy-udp" && o.Op != "release" && o.Op != "writefile" {
			obs = append(obs, o)
		}
	}
	describe := func(i int) string {
		a := c.Attempts[i]
		return fmt.Sprintf("attempt %d (%s of a %s configuration)", i, a.Op, a.Kind)
	}
	for i, o := range obs {
		if o.Err == "SLOW-MACHINE" {
			return false, fmt.Errorf("HARNESS: %s needed more than 10 s in a process starved of CPU: no verdict", describe(i))
		}
		if o.Err == "SIGNAL-NOT-HANDLED" {
			return false, fmt.Errorf("HARNESS: %s: the process log shows no sign that the SIGUSR1 handler received the signal", describe(i))
		}
		if o.Hung {
			return true, fmt.Errorf("%s did not return within the watchdog after the history %v; blocked goroutines:\n%s\nprocess log:\n%s", describe(i), kinds(c.Attempts[:i]), o.Blocked, tail(resA.Log))
		}
	}
	if len(obs) != len(c.Attempts) {
		return false, fmt.Errorf("HARNESS: child A reported %d of %d attempts (exit %d)\n%s", len(obs), len(c.Attempts), resA.ExitCode, tail(resA.Log))
	}
	prev := child.Obs{Listening: nil, Answers: nil}
	havePrev := false
	for i, o := range obs {
		a := c.Attempts[i]
		if a.Kind == "valid" && !o.OK && i < len(obs)-1 {
			// an intermediate valid configuration that fails: judged at the end only for the final one;
			// here it just means the history is different from the intended one
			return false, fmt.Errorf("HARNESS: %s failed: %s", describe(i), clip(o.Err))
		}
		startStage := map[string]bool{"udp-port-in-use": true, "port-in-use": true, "port-in-use-first-site-ok": true, "bind-unavailable": true, "startup-callback": true, "tls-mix": true}
		if a.Op == "validate" && startStage[a.Kind] {
			// these only fail when really started: validation accepts them, and must not change the process
			if !o.OK {
				return false, fmt.Errorf("HARNESS: %s failed: %s", describe(i), clip(o.Err))
			}
			if havePrev {
				if d := same(prev, o); d != "" {
					return true, fmt.Errorf("%s changed the process: %s", describe(i), d)
				}
			}
			prev, havePrev = o, true
			continue
		}
		if a.Kind != "valid" {
			if o.OK {
				return true, fmt.Errorf("HARNESS: %s unexpectedly succeeded", describe(i))
			}
			// a failed attempt leaves nothing behind
			if havePrev {
				if d := same(prev, o); d != "" {
					return true, fmt.Errorf("%s failed (%s) and left something behind: before/after: %s; history %v", describe(i), clip(o.Err), d, kinds(c.Attempts[:i+1]))
				}
			} else if len(o.Listening) > 0 || o.Instances > 0 {
				return true, fmt.Errorf("%s failed (%s) in a fresh process and left listening sockets %v / %d instances behind", describe(i), clip(o.Err), o.Listening, o.Instances)
			}
			if a.Op != "validate" && !strings.Contains(a.Kind, "lex") && a.Kind != "unknown-directive" && a.Kind != "missing-import" {
				nontrivial = true // failed after the parsing stage
			}
		}
		if a.Op == "validate" {
			if havePrev {
				if d := same(prev, o); d != "" && a.Kind == "valid" {
					// validating a valid configuration must not change the process either
					return true, fmt.Errorf("%s changed the process: %s", describe(i), d)
				}
			}
		}
		prev, havePrev = o, true
	}
	// the final valid configuration behaves as in a fresh process
	last := len(c.Attempts) - 1
	scB := script(c, dirB, last)
	resB, e := child.Spawn(scB, 60*time.Second)
	if e != nil {
		return nontrivial, fmt.Errorf("HARNESS: child B: %v", e)
	}
	var ob child.Obs
	for _, o := range resB.Obs {
		if o.Op == "load" {
			ob = o
		}
	}
	oa := obs[last]
	if ob.OK != oa.OK {
		return nontrivial, fmt.Errorf("the final valid configuration loads in a fresh process: %v (%s), after the history %v: %v (%s)", ob.OK, clip(ob.Err), kinds(c.Attempts[:last]), oa.OK, clip(oa.Err))
	}
	if !ob.OK {
		return nontrivial, fmt.Errorf("HARNESS: the valid configuration does not load even in a fresh process: %s", ob.Err)
	}
	if d := same(ob, oa); d != "" {
		return nontrivial, fmt.Errorf("after the history %v the final valid configuration differs from a fresh process (fresh vs history): %s", kinds(c.Attempts[:last]), d)
	}
	return nontrivial, nil
}

func kinds(a []Attempt) []string {
	var out []string
	for _, x := range a {
		out = append(out, x.Op+":"+x.Kind)
	}
	return out
}

func clip(s string) string {
	if len(s) > 160 {
		return s[:160] + "..."
	}
	return s
}

func tail(s string) string {
	if len(s) > 1500 {
		return s[len(s)-1500:]
	}
	return s
}

func genCase(t *rapid.T) *Case {
	c := &Case{QUIC: rapid.IntRange(0, 3).Draw(t, "quic") == 0}
	n := rapid.IntRange(1, 6).Draw(t, "n")
	running := false
	k := 0
	var repaired []string // htpasswd entries that exist only since a repair
	repairedKind := map[string]bool{}
	for i := 0; i < n; i++ {
		lb := fmt.Sprintf("a%d", i)
		a := Attempt{Sites: rapid.IntRange(1, 2).Draw(t, lb+"sites"), Auth: rapid.Bool().Draw(t, lb+"auth"), Hook: rapid.Bool().Draw(t, lb+"hook")}
		if rapid.IntRange(0, 3).Draw(t, lb+"valid") == 0 {
			a.Kind = "valid"
			k++
			a.K = k
			if a.Auth && len(repaired) > 0 && rapid.Bool().Draw(t, lb+"userep") {
				a.AuthUse = rapid.SampledFrom(repaired).Draw(t, lb+"rep")
			}
		} else {
			// a kind whose file has been repaired would no longer fail
			var kindsLeft []string
			for _, fk := range failureKinds {
				if fk == "udp-port-in-use" && !c.QUIC {
					continue
				}
				if !repairedKind[fk] {
					kindsLeft = append(kindsLeft, fk)
				}
			}
			a.Kind = rapid.SampledFrom(kindsLeft).Draw(t, lb+"kind")
			a.K = i
			if a.Kind == "htpasswd-corrupted" {
				a.Tail = rapid.Bool().Draw(t, lb+"tail")
			}
			if running && a.Kind != "lex" {
				a.Roll = rapid.IntRange(0, 3).Draw(t, lb+"roll") == 0
			}
			if _, use, ok := repairStep(a); ok && rapid.Bool().Draw(t, lb+"repair") {
				a.Repair = true
				repaired = append(repaired, use)
				repairedKind[a.Kind] = true
			}
		}
		switch rapid.IntRange(0, 3).Draw(t, lb+"op") {
		case 0:
			a.Op = "validate"
		default:
			if running {
				a.Op = "reload"
			} else {
				a.Op = "load"
			}
		}
		if a.Kind == "conf-missing" && a.Op != "reload" {
			a.Kind = "lex" // a missing file is only a reload-by-signal failure here
			a.Roll, a.Repair = false, false
		}
		if a.Kind == "valid" && a.Op == "load" {
			running = true
		}
		c.Attempts = append(c.Attempts, a)
	}
	k++
	final := Attempt{Kind: "valid", K: k, Sites: rapid.IntRange(1, 2).Draw(t, "fsites"), Auth: rapid.Bool().Draw(t, "fauth"), Hook: rapid.Bool().Draw(t, "fhook"), Op: "load"}
	if running {
		final.Op = "reload"
	}
	if len(repaired) > 0 && rapid.IntRange(0, 3).Draw(t, "fuserep") != 0 {
		// the final configuration uses what the operator repaired
		final.Auth = true
		final.AuthUse = rapid.SampledFrom(repaired).Draw(t, "frep")
	}
	c.Attempts = append(c.Attempts, final)
	return c
}

func TestHistories(t *testing.T) {
	if vt.ReplayPath() != "" {
		t.Skip("replay mode")
	}
	rapid.Check(t, func(t *rapid.T) {
		c := genCase(t)
		nt, err := runCase(c)
		var classes []string
		for _, a := range c.Attempts {
			classes = append(classes, a.Op+":"+a.Kind)
		}
		vt.Record("histories", c, nt, classes...)
		vt.Check(t, "histories", c, err)
	})
}

func replayCase(rf *vt.ReplayFile) error {
	var c Case
	if err := vt.Decode(rf, &c); err != nil {
		return err
	}
	_, err := runCase(&c)
	return err
}

func TestReplay(t *testing.T) { vt.RunReplay(t, replayCase) }
func TestCorpus(t *testing.T) { vt.RunCorpus(t, replayCase) }
