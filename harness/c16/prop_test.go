package c16

import (
	"fmt"
	"os"
	"path/filepath"
	"sort"
	"strings"
	"sync/atomic"
	"testing"
	"time"

	"github.com/tmpim/casket"
	"pgregory.net/rapid"

	"verif/harness/internal/child"
	"verif/harness/internal/lifecycle"
	"verif/harness/internal/vt"
)

func TestMain(m *testing.M) {
	child.Hook = func() {
		lifecycle.Register()
		lifecycle.Sink = child.Event
	}
	child.MaybeRun()
	vt.Property = "C16"
	lifecycle.Register()
	vt.Main(m)
}

// ---------------------------------------------------------------------------

type Op struct {
	Kind     string `json:"kind"` // start | reload | stop
	Servers  int    `json:"servers"`
	Graceful bool   `json:"graceful"`
	Fail     string `json:"fail"`               // "", parse, setup, makeservers, startup, listen, onrestart (this generation's restart callback will fail)
	StopErr  bool   `json:"stop_err,omitempty"` // this generation's graceful servers report an error from Stop (after stopping)
}

type Case struct {
	Ops []Op `json:"ops"`
}

type gen struct {
	id            string
	servers       int
	graceful      bool
	failOnRestart bool
}

func input(text string) casket.Input {
	return casket.CasketfileInput{Contents: []byte(text), Filepath: "Lifecyclefile", ServerTypeName: "lifecycle"}
}

func filterSync(ev []string) (sync []string, serves map[string]int) {
	serves = map[string]int{}
	for _, e := range ev {
		switch {
		case strings.HasPrefix(e, "listen#"):
		case strings.HasPrefix(e, "serve#"):
			serves[strings.TrimPrefix(e, "serve#")]++
		default:
			sync = append(sync, e)
		}
	}
	return
}

func runCase(c *Case) (nontrivial bool, err error) {
	lifecycle.Reset()
	var live *gen
	var inst *casket.Instance
	var first *casket.Instance
	waitReturned := new(int32)
	genN := 0
	seen := 0
	sawFailedReload, reloadAfterFailed, stopAfterReload, reloaded := false, false, false, false
	defer func() {
		if inst != nil {
			inst.ShutdownCallbacks()
			inst.Stop()
		}
		lifecycle.ReleaseAll()
	}()
	var lineage []*casket.Instance // the instances of the current lineage, oldest first
	var lineageGen []string        // their generation ids
	var fresh []*int32             // flags of the Wait() calls made in mid-history (see below)
	stuck := false               // the lineage has a non-graceful server, which casket never stops: Wait() cannot return
	serving := map[string]bool{} // servers currently serving (a non-graceful one serves until the case ends)
	continuously := false        // since the lineage began, some server of it has been serving at every moment
	for oi, op := range c.Ops {
		genN++
		h := &gen{id: fmt.Sprintf("g%d", genN), servers: op.Servers, graceful: op.Graceful, failOnRestart: op.Fail == "onrestart"}
		failStage := op.Fail
		if failStage == "onrestart" {
			failStage = "" // this generation itself is fine; reloading away from it will fail
		}
		var opts []string
		if op.StopErr {
			opts = append(opts, "stoperr")
		}
		text := lifecycle.Text(h.id, h.servers, h.graceful, op.Fail, opts...)
		var want []string
		var wantServes []string
		var opErr error
		desc := fmt.Sprintf("op %d %+v (live generation: %+v)", oi, op, live)
		switch op.Kind {
		case "start":
			if live != nil {
				continue
			}
			var ni *casket.Instance
			ni, opErr = casket.Start(input(text))
			switch failStage {
			case "parse", "setup", "makeservers":
			case "startup", "listen":
				want = []string{"firststartup#" + h.id, "startup#" + h.id}
			default:
				want = []string{"firststartup#" + h.id, "startup#" + h.id}
				for i := 0; i < h.servers; i++ {
					wantServes = append(wantServes, fmt.Sprintf("%s.%d", h.id, i))
				}
			}
			if (failStage == "") != (opErr == nil) {
				return nontrivial, fmt.Errorf("HARNESS: %s: start returned err=%v", desc, opErr)
			}
			if opErr == nil {
				live, inst = h, ni
				// a new lineage begins: watch Wait() on its first instance
				first = ni
				lineage, lineageGen, fresh = []*casket.Instance{ni}, []string{h.id}, nil
				stuck = false
				serving = map[string]bool{}
				continuously = h.servers > 0
				waitReturned = new(int32)
				go func(i *casket.Instance, flag *int32) { i.Wait(); atomic.StoreInt32(flag, 1) }(first, waitReturned)
			}
		case "reload":
			if live == nil {
				continue
			}
			var ni *casket.Instance
			ni, opErr = inst.Restart(input(text))
			want = []string{"restart#" + live.id}
			stage := failStage
			if live.failOnRestart {
				stage = "onrestart-of-old"
			}
			switch stage {
			case "onrestart-of-old", "parse", "setup", "makeservers":
				want = append(want, "restartfailed#"+live.id)
			case "startup", "listen":
				want = append(want, "startup#"+h.id, "restartfailed#"+live.id)
			default:
				want = append(want, "startup#"+h.id)
				if live.graceful {
					for i := 0; i < live.servers; i++ {
						want = append(want, fmt.Sprintf("stop#%s.%d", live.id, i))
					}
				}
				want = append(want, "shutdown#"+live.id)
				for i := 0; i < h.servers; i++ {
					wantServes = append(wantServes, fmt.Sprintf("%s.%d", h.id, i))
				}
			}
			failed := stage != ""
			if failed != (opErr != nil) {
				return nontrivial, fmt.Errorf("%s: reload expected to fail=%v, returned err=%v", desc, failed, opErr)
			}
			if failed {
				sawFailedReload = true
				if ni != inst {
					return nontrivial, fmt.Errorf("%s: a failed reload must return the old instance", desc)
				}
			} else {
				if sawFailedReload {
					reloadAfterFailed = true
				}
				reloaded = true
				if live.graceful {
					for i := 0; i < live.servers; i++ {
						delete(serving, fmt.Sprintf("%s.%d", live.id, i))
					}
				}
				live, inst = h, ni
				lineage, lineageGen = append(lineage, ni), append(lineageGen, h.id)
			}
		case "stop":
			if live == nil {
				continue
			}
			inst.ShutdownCallbacks()
			inst.Stop()
			want = []string{"shutdown#" + live.id, "finalshutdown#" + live.id}
			if live.graceful {
				for i := 0; i < live.servers; i++ {
					want = append(want, fmt.Sprintf("stop#%s.%d", live.id, i))
					delete(serving, fmt.Sprintf("%s.%d", live.id, i))
				}
			}
			if reloaded {
				stopAfterReload = true
			}
			live, inst = nil, nil
		}
		// wait for the asynchronous serve events of this step
		deadline := time.Now().Add(3 * time.Second)
		var got []string
		var gotServes map[string]int
		for {
			all := lifecycle.Events()
			got, gotServes = filterSync(all[seen:])
			ok := true
			for _, s := range wantServes {
				if gotServes[s] == 0 {
					ok = false
				}
			}
			if ok || time.Now().After(deadline) {
				seen = len(all)
				break
			}
			time.Sleep(time.Millisecond)
		}
		if fmt.Sprint(got) != fmt.Sprint(want) {
			return nontrivial, fmt.Errorf("%s: callbacks/stop events %v, the lifecycle model gives %v (history so far: %v)", desc, got, want, c.Ops[:oi+1])
		}
		var ws []string
		for s, n := range gotServes {
			for k := 0; k < n; k++ {
				ws = append(ws, s)
			}
		}
		sort.Strings(ws)
		sort.Strings(wantServes)
		if fmt.Sprint(ws) != fmt.Sprint(wantServes) {
			return nontrivial, fmt.Errorf("%s: servers that started serving %v, the lifecycle model gives %v", desc, ws, wantServes)
		}
		// a startup callback runs before any server of its instance serves
		if len(wantServes) > 0 {
			all := lifecycle.Events()
			startupAt, firstServe := -1, -1
			for i, e := range all {
				if e == "startup#"+h.id {
					startupAt = i
				}
				if strings.HasPrefix(e, "serve#"+h.id+".") && firstServe < 0 {
					firstServe = i
				}
			}
			if firstServe >= 0 && startupAt > firstServe {
				return nontrivial, fmt.Errorf("%s: a server of %s was serving before its startup callback ran", desc, h.id)
			}
		}
		if op.Kind != "stop" && live == h {
			for _, s := range wantServes {
				serving[s] = true
			}
		}
		// waiting on the first instance of the lineage must not return while a server of it or its successors serves
		if live != nil && !live.graceful && live.servers > 0 {
			stuck = true
		}
		if len(serving) == 0 {
			continuously = false // every server has stopped at some point: Wait() may legitimately have returned
			if !stuck && first != nil {
				// let the waiters finish returning before the wait group is used again
				pending := func() bool {
					if atomic.LoadInt32(waitReturned) == 0 {
						return true
					}
					for _, f := range fresh {
						if atomic.LoadInt32(f) == 0 {
							return true
						}
					}
					return false
				}
				for d := time.Now().Add(2 * time.Second); pending() && time.Now().Before(d); {
					time.Sleep(200 * time.Microsecond)
				}
				fresh = nil
			}
		} else if first != nil {
			// Wait() called now, on any instance of the lineage, must block: servers of the live generation
			// (or servers casket cannot stop) are serving.  A correct Wait never returns here, so the short
			// pause cannot raise a false alarm; a wrong one returns at once.
			now := map[int]*int32{}
			for k, li := range lineage {
				// only servers of this instance and of its successors count for it
				own := false
				for sv := range serving {
					for _, g := range lineageGen[k:] {
						if strings.HasPrefix(sv, g+".") {
							own = true
						}
					}
				}
				if !own {
					continue
				}
				f := new(int32)
				now[k] = f
				fresh = append(fresh, f)
				go func(i *casket.Instance, flag *int32) { i.Wait(); atomic.StoreInt32(flag, 1) }(li, f)
			}
			time.Sleep(300 * time.Microsecond)
			for k, f := range now {
				if atomic.LoadInt32(f) == 1 {
					return nontrivial, fmt.Errorf("%s: Wait() called on generation %d of the lineage %v returned although servers %v of it or its successors are serving", desc, k+1, lineageGen, serving)
				}
			}
		}
		if atomic.LoadInt32(waitReturned) == 1 && continuously {
			return nontrivial, fmt.Errorf("%s: Wait() on the first instance returned although servers %v of its lineage are still serving", desc, serving)
		}
	}
	if live == nil && first != nil && !stuck {
		deadline := time.Now().Add(3 * time.Second)
		for atomic.LoadInt32(waitReturned) == 0 && time.Now().Before(deadline) {
			time.Sleep(time.Millisecond)
		}
		if atomic.LoadInt32(waitReturned) == 0 {
			return nontrivial, fmt.Errorf("after the final stop, Wait() on the first instance still blocks (history %v)", c.Ops)
		}
	}
	return reloadAfterFailed || stopAfterReload, nil
}

func genCase(t *rapid.T) *Case {
	c := &Case{}
	n := rapid.IntRange(2, 8).Draw(t, "n")
	live := false
	for i := 0; i < n; i++ {
		lb := fmt.Sprintf("o%d", i)
		op := Op{Servers: rapid.IntRange(0, 3).Draw(t, lb+"srv"), Graceful: rapid.IntRange(0, 3).Draw(t, lb+"gr") != 0}
		if !live {
			op.Kind = "start"
		} else {
			op.Kind = rapid.SampledFrom([]string{"reload", "reload", "reload", "stop"}).Draw(t, lb+"k")
		}
		if op.Kind != "stop" {
			op.Fail = rapid.SampledFrom([]string{"", "", "", "parse", "setup", "makeservers", "startup", "listen", "onrestart"}).Draw(t, lb+"fail")
			if op.Fail == "listen" && op.Servers == 0 {
				op.Servers = 1
			}
			op.StopErr = op.Graceful && rapid.IntRange(0, 3).Draw(t, lb+"se") == 0
		}
		if op.Kind == "start" && (op.Fail == "" || op.Fail == "onrestart") {
			live = true
		}
		if op.Kind == "stop" {
			live = false
		}
		c.Ops = append(c.Ops, op)
	}
	return c
}

func TestHistories(t *testing.T) {
	if vt.ReplayPath() != "" {
		t.Skip("replay mode")
	}
	rapid.Check(t, func(t *rapid.T) {
		c := genCase(t)
		nt, err := runCase(c)
		var classes []string
		for _, o := range c.Ops {
			k := o.Kind
			if o.Fail != "" {
				k += "-fail-" + o.Fail
			}
			classes = append(classes, k)
		}
		vt.Record("histories", c, nt, classes...)
		vt.Check(t, "histories", c, err)
	})
}

// ---------------------------------------------------------------------------
// process shutdown by signals (fresh child process per history)

type sigCase struct {
	Reloads []Op   `json:"reloads"` // reloads after the initial start (Instance.Restart)
	Servers int    `json:"servers"`
	Signal  string `json:"signal"`            // sigterm | sigint | a mixed burst such as "sigint,sigterm"
	N       int    `json:"n"`                 // how many signals are sent back to back
	SlowMs  int    `json:"slow_ms,omitempty"` // the live instance's shutdown callback takes this long
	// Extra: further instances started in the same process before the main one; with StopDuring the first of
	// them (whose shutdown callback is slow) is stopped from another goroutine while the shutdown callbacks run
	Extra      int  `json:"extra,omitempty"`
	StopDuring bool `json:"stop_during,omitempty"`
	// StaleStop: after the reloads the application calls Stop() on the handle its initial Start returned
	// (a deferred clean-up), although reloads have replaced that instance since
	StaleStop bool `json:"stale_stop,omitempty"`
}

var seq int64

func runSig(c *sigCase) (bool, error) {
	dir := filepath.Join(vt.WorkDir, fmt.Sprintf("c16-%d", atomic.AddInt64(&seq, 1)))
	os.MkdirAll(dir, 0o755)
	defer os.RemoveAll(dir)
	sc := &child.Script{Dir: dir, ServerType: "lifecycle"}
	var opts []string
	if c.SlowMs > 0 {
		opts = append(opts, fmt.Sprintf("slow=%d", c.SlowMs))
	}
	for x := 1; x <= c.Extra; x++ {
		xo := []string{}
		if x == 1 && c.StopDuring {
			xo = []string{"slow=400"}
		}
		sc.Steps = append(sc.Steps, child.Step{Op: "load", Text: lifecycle.Text(fmt.Sprintf("x%d", x), 1, true, "", xo...)})
	}
	sc.Steps = append(sc.Steps, child.Step{Op: "load", Text: lifecycle.Text("g1", c.Servers, true, "", opts...)})
	liveGen := "g1"
	failedOnce := false
	for i, r := range c.Reloads {
		id := fmt.Sprintf("g%d", i+2)
		sc.Steps = append(sc.Steps, child.Step{Op: "restart", Text: lifecycle.Text(id, r.Servers, true, r.Fail)})
		if r.Fail == "" {
			liveGen = id
		} else {
			failedOnce = true
		}
	}
	if c.StaleStop && liveGen != "g1" {
		sc.Steps = append(sc.Steps, child.Step{Op: "stop-load", N: c.Extra})
	}
	if c.Extra > 0 && c.StopDuring {
		sc.Steps = append(sc.Steps, child.Step{Op: "stop-first-later", N: 150})
	}
	first := c.Signal
	if strings.Contains(c.Signal, ",") {
		sc.Steps = append(sc.Steps, child.Step{Op: "signals", Text: c.Signal})
		first = strings.SplitN(c.Signal, ",", 2)[0]
	} else {
		sc.Steps = append(sc.Steps, child.Step{Op: c.Signal, N: c.N})
	}
	res, err := child.Spawn(sc, 30*time.Second)
	if err != nil {
		return false, fmt.Errorf("HARNESS: %v", err)
	}
	if !strings.Contains(res.Log, "[INFO] "+strings.ToUpper(first)+":") {
		return false, fmt.Errorf("HARNESS: the process log shows no sign that casket's %s handler received the signal (exit code %d)", c.Signal, res.ExitCode)
	}
	for _, o := range res.Obs {
		if o.Err == "SLOW-MACHINE" {
			return false, fmt.Errorf("HARNESS: step %s needed more than 10 s in a process starved of CPU: no verdict", o.Op)
		}
		if o.Hung {
			return true, fmt.Errorf("step %s hung: %s", o.Op, o.Blocked)
		}
		if (o.Op == c.Signal || o.Op == "signals") && strings.Contains(o.Err, "still alive") {
			return true, fmt.Errorf("the process was still alive 3s after %d x %s; events %v", c.N, c.Signal, res.Events)
		}
	}
	count := map[string]int{}
	for _, e := range res.Events {
		count[e]++
	}
	desc := fmt.Sprintf("history start + reloads %+v, then %d x %s; events %v", c.Reloads, c.N, c.Signal, res.Events)
	for x := 1; x <= c.Extra; x++ {
		for _, ev := range []string{"shutdown", "finalshutdown"} {
			if n := count[fmt.Sprintf("%s#x%d", ev, x)]; n != 1 {
				return true, fmt.Errorf("%s callback of the live instance x%d ran %d times, want exactly once (%d further instances in the process; stop of x1 during the callbacks: %v) (%s)", ev, x, n, c.Extra, c.StopDuring, desc)
			}
		}
	}
	if count["shutdown#"+liveGen] != 1 {
		return true, fmt.Errorf("shutdown callback of the live instance %s ran %d times, want exactly once (%s)", liveGen, count["shutdown#"+liveGen], desc)
	}
	if count["finalshutdown#"+liveGen] != 1 {
		return true, fmt.Errorf("final-shutdown callback of the live instance %s ran %d times, want exactly once (%s)", liveGen, count["finalshutdown#"+liveGen], desc)
	}
	for e, n := range count {
		if strings.HasPrefix(e, "finalshutdown#") && e != "finalshutdown#"+liveGen && !strings.HasPrefix(e, "finalshutdown#x") {
			return true, fmt.Errorf("%s ran although that instance was not live at process shutdown (%s)", e, desc)
		}
		if strings.HasPrefix(e, "shutdown#") && n > 1 {
			return true, fmt.Errorf("%s ran %d times (%s)", e, n, desc)
		}
		if strings.HasPrefix(e, "firststartup#") && e != "firststartup#g1" && !strings.HasPrefix(e, "firststartup#x") {
			return true, fmt.Errorf("%s ran on a reload (%s)", e, desc)
		}
	}
	return c.N >= 2 || failedOnce, nil
}

func TestSignals(t *testing.T) {
	if vt.ReplayPath() != "" {
		t.Skip("replay mode")
	}
	rapid.Check(t, func(t *rapid.T) {
		c := &sigCase{Servers: rapid.IntRange(1, 2).Draw(t, "servers"), Signal: rapid.SampledFrom([]string{"sigterm", "sigterm", "sigint"}).Draw(t, "sig"), N: rapid.IntRange(1, 4).Draw(t, "n")}
		if c.Signal == "sigint" {
			c.N = 1 // a second SIGINT is the documented force-quit
		}
		if rapid.IntRange(0, 2).Draw(t, "mixed") == 0 {
			// one SIGINT and SIGTERMs from the two different handlers, while a shutdown callback is still busy
			c.Signal = rapid.SampledFrom([]string{"sigint,sigterm", "sigterm,sigint", "sigterm,sigint,sigterm", "sigint,sigterm,sigterm"}).Draw(t, "mix")
			c.N = strings.Count(c.Signal, ",") + 1
			c.SlowMs = rapid.SampledFrom([]int{100, 300}).Draw(t, "slow")
		}
		nr := rapid.IntRange(0, 3).Draw(t, "nreloads")
		for i := 0; i < nr; i++ {
			c.Reloads = append(c.Reloads, Op{Kind: "reload", Servers: rapid.IntRange(1, 2).Draw(t, fmt.Sprintf("rs%d", i)), Graceful: true,
				Fail: rapid.SampledFrom([]string{"", "", "setup", "startup", "listen", "makeservers"}).Draw(t, fmt.Sprintf("rf%d", i))})
		}
		if rapid.IntRange(0, 2).Draw(t, "multi") == 0 {
			c.Extra = rapid.IntRange(1, 3).Draw(t, "extra")
			c.StopDuring = rapid.Bool().Draw(t, "stopduring")
		}
		c.StaleStop = len(c.Reloads) > 0 && rapid.IntRange(0, 2).Draw(t, "stale") == 0
		nt, err := runSig(c)
		vt.Record("signals", c, nt || c.Extra > 0, "signal:"+c.Signal, fmt.Sprintf("n=%d", c.N), fmt.Sprintf("instances=%d", c.Extra+1))
		vt.Check(t, "signals", c, err)
	})
}

func replayCase(rf *vt.ReplayFile) error {
	switch rf.Sub {
	case "histories":
		var c Case
		if err := vt.Decode(rf, &c); err != nil {
			return err
		}
		_, err := runCase(&c)
		return err
	case "signals":
		var c sigCase
		if err := vt.Decode(rf, &c); err != nil {
			return err
		}
		_, err := runSig(&c)
		return err
	}
	return fmt.Errorf("HARNESS: unknown sub %q", rf.Sub)
}

func TestReplay(t *testing.T) { vt.RunReplay(t, replayCase) }
func TestCorpus(t *testing.T) { vt.RunCorpus(t, replayCase) }
