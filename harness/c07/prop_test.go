package c07

import (
	"bufio"
	"crypto/tls"
	"fmt"
	"io"
	"net"
	"net/http"
	"os"
	"path/filepath"
	"sort"
	"strings"
	"sync"
	"sync/atomic"
	"syscall"
	"testing"
	"time"

	"github.com/tmpim/casket"
	"github.com/tmpim/casket/caskethttp/httpserver"
	"pgregory.net/rapid"

	"verif/harness/internal/srv"
	"verif/harness/internal/vt"
)

// confPath is the Casketfile the registered loader reads; a SIGUSR1 reload
// re-reads it exactly like the casket binary re-reads its -conf file.
var confPath atomic.Value

type fileLoader struct{}

func (fileLoader) Load(serverType string) (casket.Input, error) {
	p, _ := confPath.Load().(string)
	b, err := os.ReadFile(p)
	if err != nil {
		return nil, err
	}
	return casket.CasketfileInput{Contents: b, Filepath: p, ServerTypeName: serverType}, nil
}

func TestMain(m *testing.M) {
	vt.Property = "C07"
	casket.RegisterCasketfileLoader("verif", fileLoader{})
	casket.TrapSignals()
	vt.Main(m)
}

// ---------------------------------------------------------------------------
// case

// Site is one site of the configuration that exists in every generation.
type Site struct {
	Port int    `json:"port"` // index into ports
	Host string `json:"host"`
	Bind string `json:"bind,omitempty"` // "bind <ip>" in the site block: its own listening socket on that address
}

func (s Site) ip() string {
	if s.Bind != "" {
		return s.Bind
	}
	return "127.0.0.1"
}

type Client struct {
	Site    int    `json:"site"`
	Style   string `json:"style"` // close | keep | split | stall (split with a pause longer than the drain timeout)
	PauseUs int    `json:"pause_us"`
	SplitMs int    `json:"split_ms"`
}

type Reload struct {
	Kind    string `json:"kind"` // valid | parse | setup | startup | listen-first | listen-last
	DelayMs int    `json:"delay_ms"`
	Extra   bool   `json:"extra"` // the configuration also has the extra site (own port)
	SizeKB  int    `json:"size_kb"`
	Via     string `json:"via,omitempty"` // "" = Instance.Restart, "sigusr1" = rewrite the Casketfile and signal the process
}

type Case struct {
	Sites    []Site   `json:"sites"`
	Extra0   bool     `json:"extra0"`
	Size0    int      `json:"size0_kb"`
	Clients  []Client `json:"clients"`
	Reloads  []Reload `json:"reloads"`
	TailMs   int      `json:"tail_ms"`
	GraceMs  int      `json:"grace_ms"`           // graceful drain timeout (-grace); 0 = the default 5 s
	Imported bool     `json:"imported,omitempty"` // the Casketfile is one constant 'import sites.conf' line; reloads only change the imported file
	TLS      bool     `json:"tls,omitempty"`      // every site is https:// with 'tls self_signed'; clients handshake on every fresh connection
}

var ports = []int{17001, 17002, 17003}

const extraPort = 17010
const busyPort = 17099

func body(gen, site, sizeKB int) []byte {
	head := fmt.Sprintf("gen=%d site=%d\n", gen, site)
	pad := make([]byte, sizeKB*1024)
	x := uint32(gen*131 + site*31 + 7)
	for i := range pad {
		x = x*1664525 + 1013904223
		pad[i] = 'a' + byte(x>>24)%26
	}
	return append([]byte(head), pad...)
}

// text renders generation gen; site index len(c.Sites) is the extra site.
func text(c *Case, dir string, gen int, kind string, extra bool, sizeKB int) string {
	var sb strings.Builder
	site := func(addr string, idx int, inject string) {
		root := filepath.Join(dir, fmt.Sprintf("g%d", gen), fmt.Sprintf("s%d", idx))
		os.MkdirAll(root, 0o755)
		os.WriteFile(filepath.Join(root, "index.txt"), body(gen, idx, sizeKB), 0o644)
		if c.TLS {
			addr = strings.Replace(addr, "http://", "https://", 1)
			inject = "\ttls self_signed\n" + inject
		}
		fmt.Fprintf(&sb, "%s {\n\troot %s\n\theader / X-Gen g%d\n%s}\n", addr, root, gen, inject)
	}
	if kind == "listen-first" {
		site(fmt.Sprintf("http://busy.test:%d", busyPort), 90, "")
	}
	for i, s := range c.Sites {
		inject := ""
		if i == 0 {
			switch kind {
			case "setup":
				inject = "\tstatus abc /x\n"
			case "startup":
				inject = "\terrors /nonexistent-dir-xyz/sub/errors.log\n"
			}
		}
		if s.Bind != "" {
			inject = "\tbind " + s.Bind + "\n" + inject
		}
		site(fmt.Sprintf("http://%s:%d", s.Host, ports[s.Port]), i, inject)
	}
	if extra {
		site(fmt.Sprintf("http://extra.test:%d", extraPort), len(c.Sites), "")
	}
	if kind == "listen-last" {
		site(fmt.Sprintf("http://busy.test:%d", busyPort), 90, "")
	}
	if kind == "parse" {
		sb.WriteString("http://broken.test:17001 {\n\tgzip {\n")
	}
	return sb.String()
}

// ---------------------------------------------------------------------------
// clients

type record struct {
	client     int
	site       int
	start, end time.Time
	err        string
	gen        int
}

func parseBody(b []byte) (gen, site int, ok bool) {
	if _, err := fmt.Sscanf(string(b[:min(len(b), 40)]), "gen=%d site=%d\n", &gen, &site); err != nil {
		return 0, 0, false
	}
	return gen, site, true
}

// request makes one request on a fresh connection and validates the response
// against the generation it claims to come from.
func request(useTLS bool, port int, host string, site int, style string, splitMs int, sizes map[int]int) (gen int, errText string) {
	return requestAt("127.0.0.1", useTLS, port, host, site, style, splitMs, sizes)
}

func requestAt(ip string, useTLS bool, port int, host string, site int, style string, splitMs int, sizes map[int]int) (gen int, errText string) {
	tcp, err := net.DialTimeout("tcp", fmt.Sprintf("%s:%d", ip, port), 10*time.Second)
	if err != nil {
		return -1, "connect: " + err.Error()
	}
	defer tcp.Close()
	defer srv.NoLinger(tcp) // no TIME_WAIT pile-up from thousands of fresh connections
	tcp.SetDeadline(time.Now().Add(30 * time.Second))
	conn := tcp
	if useTLS {
		tc := tls.Client(tcp, &tls.Config{InsecureSkipVerify: true, ServerName: host, NextProtos: []string{"http/1.1"}})
		if err := tc.Handshake(); err != nil {
			return -1, "TLS handshake: " + err.Error()
		}
		conn = tc
	}
	var hdr [][2]string
	if style == "close" {
		hdr = append(hdr, [2]string{"Connection", "close"})
	}
	raw := srv.Request("GET", "/index.txt", fmt.Sprintf("%s:%d", host, port), hdr, nil)
	if style == "split" || style == "stall" {
		cut := len(raw) / 2
		if _, err := conn.Write(raw[:cut]); err != nil {
			return -1, "write: " + err.Error()
		}
		time.Sleep(time.Duration(splitMs) * time.Millisecond)
		raw = raw[cut:]
	}
	if _, err := conn.Write(raw); err != nil {
		return -1, "write: " + err.Error()
	}
	resp, err := http.ReadResponse(bufio.NewReader(conn), &http.Request{Method: "GET"})
	if err != nil {
		return -1, "reading the response: " + err.Error()
	}
	b, err := io.ReadAll(resp.Body)
	if err != nil {
		return -1, fmt.Sprintf("reading the body (got %d bytes): %v", len(b), err)
	}
	if resp.StatusCode != 200 {
		return -1, fmt.Sprintf("status %d, body %.60q", resp.StatusCode, b)
	}
	g, s, ok := parseBody(b)
	if !ok {
		return -1, fmt.Sprintf("unrecognisable body %.60q", b)
	}
	if s != site {
		return g, fmt.Sprintf("misrouted: asked for site %d (%s:%d), got the content of site %d (generation %d)", site, host, port, s, g)
	}
	size, known := sizes[g]
	if !known {
		return g, fmt.Sprintf("answered by generation %d, which does not exist", g)
	}
	if want := body(g, s, size); string(want) != string(b) {
		return g, fmt.Sprintf("incomplete or altered body from generation %d: %d bytes, want %d", g, len(b), len(want))
	}
	if xg := resp.Header.Get("X-Gen"); xg != fmt.Sprintf("g%d", g) {
		return g, fmt.Sprintf("body of generation %d but header X-Gen=%q: a mix of two configurations", g, xg)
	}
	return g, ""
}

// ---------------------------------------------------------------------------

type reloadRec struct {
	gen          int
	kind         string
	call, ret    time.Time
	ok           bool
	err          string
	extra        bool
	prevValidGen int
	via          string
}

var seq int64

func runCase(c *Case) (nontrivial bool, classes []string, err error) {
	dir := filepath.Join(vt.WorkDir, fmt.Sprintf("c07-%d", atomic.AddInt64(&seq, 1)))
	os.MkdirAll(dir, 0o755)
	defer os.RemoveAll(dir)

	busy, lerr := net.Listen("tcp", fmt.Sprintf(":%d", busyPort))
	if lerr != nil {
		return false, nil, fmt.Errorf("HARNESS: cannot occupy the busy port: %v", lerr)
	}
	defer busy.Close()

	sizes := map[int]int{0: c.Size0}
	for i, r := range c.Reloads {
		sizes[i+1] = r.SizeKB
		sizes[1000+i+1] = r.SizeKB // the intermediate generation of a pair of signals
	}
	httpserver.GracefulTimeout = 5 * time.Second
	if c.GraceMs > 0 {
		httpserver.GracefulTimeout = time.Duration(c.GraceMs) * time.Millisecond
	}
	defer func() { httpserver.GracefulTimeout = 5 * time.Second }()
	conf := filepath.Join(dir, "Casketfile")
	confPath.Store(conf)
	place(c, dir, conf, text(c, dir, 0, "valid", c.Extra0, c.Size0), true)
	input, lerr2 := casket.LoadCasketfile("http") // as the binary does; remembers the loader for SIGUSR1
	if lerr2 != nil {
		return false, nil, fmt.Errorf("HARNESS: loading the Casketfile: %v", lerr2)
	}
	inst, serr := casket.Start(input)
	if serr != nil {
		return false, nil, fmt.Errorf("HARNESS: initial start: %v", serr)
	}
	defer func() {
		// a history that went wrong can leave casket in a state in which stopping panics;
		// that must not mask the verdict reached before
		defer func() {
			if r := recover(); r != nil && err == nil {
				err = fmt.Errorf("stopping the instance after the history panicked: %v", r)
				nontrivial = true
			}
		}()
		srv.Stop(inst)
	}()

	// sequential probe of every site of the configuration that should be live
	probeAll := func(gen int, extra bool, when string) error {
		for i, s := range c.Sites {
			g, e := requestAt(s.ip(), c.TLS, ports[s.Port], s.Host, i, "close", 0, sizes)
			if e != "" {
				return fmt.Errorf("%s: site %d (%s:%d): %s", when, i, s.Host, ports[s.Port], e)
			}
			if g != gen {
				return fmt.Errorf("%s: site %d (%s:%d) is answered by generation %d, want %d", when, i, s.Host, ports[s.Port], g, gen)
			}
		}
		if extra {
			g, e := request(c.TLS, extraPort, "extra.test", len(c.Sites), "close", 0, sizes)
			if e != "" {
				return fmt.Errorf("%s: the extra site: %s", when, e)
			}
			if g != gen {
				return fmt.Errorf("%s: the extra site is answered by generation %d, want %d", when, g, gen)
			}
		}
		return nil
	}
	if e := probeAll(0, c.Extra0, "after the initial start"); e != nil {
		return false, nil, fmt.Errorf("HARNESS: %v", e)
	}

	var stop int32
	var wg sync.WaitGroup
	recs := make([][]record, len(c.Clients))
	for ci, cl := range c.Clients {
		wg.Add(1)
		go func(ci int, cl Client) {
			defer wg.Done()
			s := c.Sites[cl.Site]
			for n := 0; n < 600 && atomic.LoadInt32(&stop) == 0; n++ {
				r := record{client: ci, site: cl.Site, start: time.Now()}
				r.gen, r.err = requestAt(s.ip(), c.TLS, ports[s.Port], s.Host, cl.Site, cl.Style, cl.SplitMs, sizes)
				r.end = time.Now()
				recs[ci] = append(recs[ci], r)
				if cl.PauseUs > 0 {
					time.Sleep(time.Duration(cl.PauseUs) * time.Microsecond)
				}
			}
		}(ci, cl)
	}

	var rls []reloadRec
	curGen, curExtra := 0, c.Extra0
	var stepErr error
	for i, r := range c.Reloads {
		time.Sleep(time.Duration(r.DelayMs) * time.Millisecond)
		gen := i + 1
		t := text(c, dir, gen, r.Kind, r.Extra, r.SizeKB)
		rr := reloadRec{gen: gen, kind: r.Kind, extra: r.Extra, prevValidGen: curGen, via: r.Via}
		rr.call = time.Now()
		var ni *casket.Instance
		var rerr error
		if r.Via == "sigusr1-pair" && r.Kind == "valid" {
			// two configurations requested back to back, without waiting for the first reload:
			// in the end the last one requested must be live
			mid := 1000 + gen
			tmid := text(c, dir, mid, "valid", r.Extra, r.SizeKB)
			off := len(srv.LogBuf.String())
			midRec := reloadRec{gen: mid, kind: "valid", extra: r.Extra, prevValidGen: curGen, via: r.Via, ok: true, call: time.Now()}
			place(c, dir, conf, tmid, true)
			syscall.Kill(os.Getpid(), syscall.SIGUSR1)
			rr.call = time.Now()
			place(c, dir, conf, t, true)
			syscall.Kill(os.Getpid(), syscall.SIGUSR1)
			ni, rerr = inst, fmt.Errorf("HARNESS: the SIGUSR1 reloads neither completed nor failed within 20 s")
			var firstDone time.Time
			for d := time.Now().Add(20 * time.Second); time.Now().Before(d); time.Sleep(500 * time.Microsecond) {
				l := srv.LogBuf.String()
				if len(l) < off {
					off = 0
				}
				l = l[off:]
				started := strings.Count(l, "[INFO] SIGUSR1: Reloading")
				done := strings.Count(l, "Reloading complete") + strings.Count(l, "[ERROR] SIGUSR1")
				if done >= 1 && firstDone.IsZero() {
					firstDone = time.Now()
				}
				// the second signal is dropped by the runtime if the first was still queued: then one reload (of the last file) is all there is
				if done >= 2 || (done >= 1 && started == done && time.Since(firstDone) > 300*time.Millisecond) {
					rerr = nil
					if i := strings.Index(l, "[ERROR] SIGUSR1"); i >= 0 {
						rerr = fmt.Errorf("%s", strings.SplitN(l[i:], "\n", 2)[0])
					}
					if is := casket.Instances(); len(is) > 0 {
						ni = is[len(is)-1]
					}
					break
				}
			}
			if rerr != nil && strings.HasPrefix(rerr.Error(), "HARNESS") {
				stepErr = rerr
				break
			}
			midRec.ret = time.Now()
			rls = append(rls, midRec)
		} else if r.Via == "sigusr1" || r.Via == "sigusr1-pair" {
			place(c, dir, conf, t, true)
			off := len(srv.LogBuf.String())
			rr.call = time.Now()
			syscall.Kill(os.Getpid(), syscall.SIGUSR1)
			ni, rerr = inst, fmt.Errorf("HARNESS: the SIGUSR1 reload neither completed nor failed within 20 s")
			for d := time.Now().Add(20 * time.Second); time.Now().Before(d); time.Sleep(500 * time.Microsecond) {
				l := srv.LogBuf.String()
				if len(l) < off {
					off = 0
				}
				l = l[off:]
				if strings.Contains(l, "Reloading complete") {
					rerr = nil
					if is := casket.Instances(); len(is) > 0 {
						ni = is[len(is)-1]
					}
					break
				}
				if i := strings.Index(l, "[ERROR] SIGUSR1"); i >= 0 {
					rerr = fmt.Errorf("%s", strings.SplitN(l[i:], "\n", 2)[0])
					break
				}
			}
			if rerr != nil && strings.HasPrefix(rerr.Error(), "HARNESS") {
				stepErr = rerr
				break
			}
		} else {
			ni, rerr = inst.Restart(casket.CasketfileInput{Contents: []byte(place(c, dir, conf, t, false)), Filepath: conf, ServerTypeName: "http"})
		}
		rr.ret = time.Now()
		rr.ok = rerr == nil
		if rerr != nil {
			rr.err = rerr.Error()
		}
		rls = append(rls, rr)
		if (r.Kind == "valid") != rr.ok {
			if r.Kind == "valid" {
				stepErr = fmt.Errorf("reload %d to a valid configuration failed: %v", gen, rerr)
			} else {
				stepErr = fmt.Errorf("HARNESS: reload %d of kind %s succeeded", gen, r.Kind)
			}
			if rr.ok {
				inst = ni
			}
			break
		}
		if rr.ok {
			inst = ni
			curGen, curExtra = gen, r.Extra
		} else if ni != inst {
			stepErr = fmt.Errorf("failed reload %d (%s) did not return the old instance", gen, r.Kind)
			break
		}
		when := fmt.Sprintf("after reload %d (%s) returned", gen, r.Kind)
		if !rr.ok {
			when = fmt.Sprintf("after reload %d failed (%s: %.80s), the previous configuration must keep answering", gen, r.Kind, rr.err)
		}
		if e := probeAll(curGen, curExtra, when); e != nil {
			stepErr = e
			break
		}
	}
	time.Sleep(time.Duration(c.TailMs) * time.Millisecond)
	atomic.StoreInt32(&stop, 1)
	wg.Wait()
	if stepErr != nil {
		return true, nil, stepErr
	}

	// every concurrent request against the window of generations it may see
	overlaps, total, after := 0, 0, 0
	var bad []string
	for _, rs := range recs {
		for _, r := range rs {
			total++
			cl := c.Clients[r.client]
			where := fmt.Sprintf("client %d (%s, site %d) request at +%v..+%v", r.client, cl.Style, r.site, r.start.Sub(rls0(rls, r.start)), r.end.Sub(rls0(rls, r.start)))
			if r.err != "" {
				bad = append(bad, fmt.Sprintf("%s: %s; reloads: %s", where, r.err, describe(rls, r.start)))
				continue
			}
			// generations are compared by their position in time, not by their number
			rank := map[int]int{0: 0}
			for i, rl := range rls {
				rank[rl.gen] = i + 1
			}
			lo, hi := 0, 0
			for _, rl := range rls {
				if !rl.ok {
					continue
				}
				if rl.ret.Before(r.start) && rl.gen < 1000 {
					lo = rl.gen
				}
				if rl.call.Before(r.end) {
					hi = rl.gen
				}
				if rl.call.Before(r.end) && rl.ret.After(r.start) {
					overlaps++
				}
			}
			if lo > 0 {
				after++
			}
			valid := r.gen == 0
			for _, rl := range rls {
				if rl.ok && rl.gen == r.gen {
					valid = true
				}
			}
			switch {
			case !valid:
				bad = append(bad, fmt.Sprintf("%s was answered by generation %d, whose reload failed; reloads: %s", where, r.gen, describe(rls, r.start)))
			case rank[r.gen] < rank[lo]:
				bad = append(bad, fmt.Sprintf("%s was answered by the old generation %d although the reload to generation %d had already returned; reloads: %s", where, r.gen, lo, describe(rls, r.start)))
			case rank[r.gen] > rank[hi]:
				bad = append(bad, fmt.Sprintf("%s was answered by generation %d before its reload was even requested; reloads: %s", where, r.gen, describe(rls, r.start)))
			}
		}
	}
	vt.Extra("reloads", "requests", total)
	vt.Extra("reloads", "requests_overlapping_a_reload", overlaps)
	vt.Extra("reloads", "requests_started_after_a_reload", after)
	kinds := map[string]bool{}
	for _, rl := range rls {
		kinds["reload:"+rl.kind] = true
		if rl.via != "" {
			kinds["via:"+rl.via] = true
		}
	}
	for k := range kinds {
		classes = append(classes, k)
	}
	sort.Strings(classes)
	if overlaps > 0 {
		classes = append(classes, "request-overlaps-reload")
	}
	if c.GraceMs > 0 {
		classes = append(classes, "request-outlasts-drain-timeout")
	}
	if c.TLS {
		classes = append(classes, "tls")
	}
	if c.Imported {
		classes = append(classes, "constant-casketfile-with-import")
	}
	if len(bad) > 0 {
		sort.Strings(bad)
		return true, classes, fmt.Errorf("%d of %d concurrent requests violated the statement; first: %s", len(bad), total, bad[0])
	}
	return overlaps > 0, classes, nil
}

// place puts a generation's configuration where the next load will find it
// and returns the text of the top-level Casketfile: the configuration itself,
// or - for cases whose Casketfile never changes - a constant import line, the
// configuration going into the imported file.
func place(c *Case, dir, conf, text string, writeMain bool) string {
	if !c.Imported {
		if writeMain {
			writeAtomically(conf, text)
		}
		return text
	}
	writeAtomically(filepath.Join(dir, "sites.conf"), text)
	main := "import sites.conf\n"
	if writeMain {
		writeAtomically(conf, main)
	}
	return main
}

// writeAtomically replaces the Casketfile in one step, so that a reload that
// is reading it at that moment sees either the old or the new text, never a
// truncated one.
func writeAtomically(path, text string) {
	tmp := path + ".new"
	os.WriteFile(tmp, []byte(text), 0o644)
	os.Rename(tmp, path)
}

func rls0(rls []reloadRec, def time.Time) time.Time {
	if len(rls) == 0 {
		return def
	}
	return rls[0].call
}

func describe(rls []reloadRec, _ time.Time) string {
	var out []string
	t0 := rls0(rls, time.Time{})
	for _, rl := range rls {
		res := "ok"
		if !rl.ok {
			res = "failed"
		}
		out = append(out, fmt.Sprintf("g%d %s %s +%v..+%v", rl.gen, rl.kind, res, rl.call.Sub(t0), rl.ret.Sub(t0)))
	}
	return strings.Join(out, "; ")
}

// ---------------------------------------------------------------------------

func genCase(t *rapid.T) *Case {
	c := &Case{Extra0: rapid.Bool().Draw(t, "extra0"), Size0: rapid.SampledFrom([]int{0, 1, 16, 200}).Draw(t, "size0"), TailMs: rapid.IntRange(0, 10).Draw(t, "tail")}
	layout := rapid.SampledFrom([][]Site{
		{{Port: 0, Host: "a.test"}},
		{{Port: 0, Host: "a.test"}, {Port: 0, Host: "b.test"}},
		{{Port: 0, Host: "a.test"}, {Port: 1, Host: "b.test"}},
		{{Port: 0, Host: "a.test"}, {Port: 0, Host: "b.test"}, {Port: 1, Host: "a.test"}},
		{{Port: 0, Host: "a.test"}, {Port: 1, Host: "b.test"}, {Port: 2, Host: "c.test"}},
		{{Port: 0, Host: "a.test", Bind: "127.0.0.1"}, {Port: 0, Host: "b.test", Bind: "127.0.0.2"}},
		{{Port: 0, Host: "a.test", Bind: "127.0.0.1"}, {Port: 0, Host: "b.test", Bind: "127.0.0.2"}, {Port: 1, Host: "c.test", Bind: "127.0.0.1"}},
	}).Draw(t, "layout")
	c.Sites = layout
	nc := rapid.IntRange(1, 8).Draw(t, "clients")
	for i := 0; i < nc; i++ {
		lb := fmt.Sprintf("c%d", i)
		c.Clients = append(c.Clients, Client{
			Site:    rapid.IntRange(0, len(c.Sites)-1).Draw(t, lb+"site"),
			Style:   rapid.SampledFrom([]string{"close", "keep", "split"}).Draw(t, lb+"style"),
			PauseUs: rapid.SampledFrom([]int{0, 0, 100, 1000, 5000}).Draw(t, lb+"pause"),
			SplitMs: rapid.SampledFrom([]int{0, 1, 3, 10, 30}).Draw(t, lb+"split"),
		})
	}
	c.TLS = rapid.IntRange(0, 3).Draw(t, "tls") == 0
	if c.Sites[0].Bind != "" {
		c.TLS = false // per-address HTTPS sites would also need per-address :80 redirect listeners next to the extra site's
	}
	c.Imported = rapid.IntRange(0, 3).Draw(t, "imported") == 0
	if rapid.IntRange(0, 3).Draw(t, "drain") == 0 {
		// a short drain timeout and one or two clients whose requests outlast it
		c.GraceMs = 150
		ns := rapid.IntRange(1, 2).Draw(t, "stallers")
		for i := 0; i < ns; i++ {
			lb := fmt.Sprintf("st%d", i)
			c.Clients = append(c.Clients, Client{Site: rapid.IntRange(0, len(c.Sites)-1).Draw(t, lb+"site"), Style: "stall", SplitMs: rapid.SampledFrom([]int{250, 400}).Draw(t, lb+"ms")})
		}
	}
	nr := rapid.IntRange(1, 6).Draw(t, "reloads")
	for i := 0; i < nr; i++ {
		lb := fmt.Sprintf("r%d", i)
		c.Reloads = append(c.Reloads, Reload{
			Kind:    rapid.SampledFrom([]string{"valid", "valid", "valid", "valid", "parse", "setup", "startup", "listen-first", "listen-last"}).Draw(t, lb+"kind"),
			DelayMs: rapid.SampledFrom([]int{0, 0, 1, 3, 10}).Draw(t, lb+"delay"),
			Extra:   rapid.Bool().Draw(t, lb+"extra"),
			SizeKB:  rapid.SampledFrom([]int{0, 1, 16, 200}).Draw(t, lb+"size"),
			Via:     rapid.SampledFrom([]string{"", "", "sigusr1", "sigusr1", "sigusr1-pair"}).Draw(t, lb+"via"),
		})
	}
	return c
}

func TestReloads(t *testing.T) {
	if vt.ReplayPath() != "" {
		t.Skip("replay mode")
	}
	rapid.Check(t, func(t *rapid.T) {
		c := genCase(t)
		nt, classes, err := runCase(c)
		vt.Record("reloads", c, nt, classes...)
		vt.Check(t, "reloads", c, err)
	})
}

func replayCase(rf *vt.ReplayFile) error {
	var c Case
	if err := vt.Decode(rf, &c); err != nil {
		return err
	}
	// a schedule-dependent failure may need several runs to show again
	var err error
	for i := 0; i < 20; i++ {
		if _, _, err = runCase(&c); err != nil {
			return err
		}
	}
	return err
}

func TestReplay(t *testing.T) { vt.RunReplay(t, replayCase) }
func TestCorpus(t *testing.T) { vt.RunCorpus(t, replayCase) }
