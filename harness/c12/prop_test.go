package c12

import (
	"bytes"
	"compress/gzip"
	"fmt"
	"io"
	"net/http"
	"os"
	"path/filepath"
	"sort"
	"strings"
	"sync"
	"sync/atomic"
	"testing"
	"time"

	"pgregory.net/rapid"

	"verif/harness/internal/probe"
	"verif/harness/internal/srv"
	"verif/harness/internal/vt"
)

func TestMain(m *testing.M) {
	vt.Property = "C12"
	probe.Register()
	vt.Main(m)
}

const page404 = "<html>TOK-PAGE-404 custom not found page</html>\n"
const pageGeneric = "<html>TOK-PAGE-GENERIC something went wrong</html>\n"

func fixture() string {
	dir := filepath.Join(vt.WorkDir, "c12root")
	if _, err := os.Stat(dir); err != nil {
		os.MkdirAll(dir, 0o755)
		os.WriteFile(filepath.Join(dir, "err404.html"), []byte(page404), 0o644)
		os.WriteFile(filepath.Join(dir, "generic.html"), []byte(pageGeneric), 0o644)
		os.WriteFile(filepath.Join(dir, "hello.txt"), []byte("hello file\n"), 0o644)
	}
	return dir
}

// wrappers: name -> Casketfile lines
var wrapperText = map[string]string{
	"log":        "log / {DIR}/access.log \"{method} {uri} {status} {size}\"",
	"gzip":       "gzip {\n\t\text *\n\t}",
	"gzipmin":    "gzip {\n\t\text *\n\t\tmin_length 256\n\t}",
	"header":     "header / X-Wrap yes",
	"errors":     "errors {DIR}/errors.log",
	"errors404":  "errors {DIR}/errors.log {\n\t\t404 {DIR}/err404.html\n\t}",
	"errorsgen":  "errors {DIR}/errors.log {\n\t\t404 {DIR}/err404.html\n\t\t* {DIR}/generic.html\n\t}",
	// a page that is configured but cannot be opened when it is needed (a start-up warning only): the
	// plain-text error body is what is left
	"errorsmiss": "errors {DIR}/errors.log {\n\t\t404 {DIR}/err404.html\n\t\t500 {DIR}/no-such-page-500.html\n\t}",
	"templates":  "templates /p .html .txt",
	"mime":       "mime .xyz text/x-xyz",
	"status":     "status 418 /teapot",
	"limits":     "limits 1MB",
	"request_id": "request_id",
	"rewrite":    "rewrite /old /new",
	"internal":   "internal /internal",
	"push":       "push /pushme /hello.txt",
	"redir":      "redir /gone /there 301",
	"index":      "index hello.txt",
	"ext":        "ext .html",
	"expvar":     "expvar /debug/vars",
}

var wrapperNames = func() []string {
	var n []string
	for k := range wrapperText {
		n = append(n, k)
	}
	sort.Strings(n)
	return n
}()

type Req struct {
	Method string       `json:"method"`
	Path   string       `json:"path"`
	AE     string       `json:"ae"`
	Cond   string       `json:"cond,omitempty"` // a conditional/range request header line "Name: value" the client adds
	Kind   string       `json:"kind"`           // error-nowrite | written | abuse | panic-before | panic-after | nowrite-ok
	Script probe.Script `json:"script"`
}

type Case struct {
	Wrappers []string `json:"wrappers"`
	Reqs     []Req    `json:"reqs"`
}

func (c *Case) has(w string) bool {
	for _, x := range c.Wrappers {
		if x == w {
			return true
		}
	}
	return false
}

func casketfile(c *Case) string {
	var sb strings.Builder
	sb.WriteString("http://localhost:0 {\n")
	fmt.Fprintf(&sb, "\troot %s\n", fixture())
	for _, w := range c.Wrappers {
		fmt.Fprintf(&sb, "\t%s\n", strings.ReplaceAll(wrapperText[w], "{DIR}", fixture()))
	}
	sb.WriteString("\tzz_probe\n}\n")
	return sb.String()
}

var idSeq int64

func decodeBody(resp *srv.Resp) ([]byte, error) {
	if resp.Header.Get("Content-Encoding") == "gzip" && len(resp.Body) > 0 {
		zr, err := gzip.NewReader(bytes.NewReader(resp.Body))
		if err != nil {
			return nil, err
		}
		return io.ReadAll(zr)
	}
	return resp.Body, nil
}

// expected error body per the statement: configured page if any, else "<S> <text>\n"
func (c *Case) errorBody(status int) (string, bool) {
	switch {
	case c.has("errorsgen"):
		if status == 404 {
			return page404, true
		}
		return pageGeneric, true
	case (c.has("errors404") || c.has("errorsmiss")) && status == 404:
		return page404, true
	}
	return fmt.Sprintf("%d %s\n", status, http.StatusText(status)), false
}

func bodyAllowed(method string, status int) bool {
	return method != "HEAD" && status != 204 && status != 304 && status >= 200
}

func runCase(c *Case) (nontrivial int, err error) {
	inst, e := srv.Start(casketfile(c), "")
	if e != nil {
		srv.Stop(inst)
		return 0, fmt.Errorf("HARNESS: start: %v\n%s", e, casketfile(c))
	}
	defer srv.Stop(inst)
	addr := srv.Loopback(srv.Addrs(inst)[0])
	alive := func(after string) error {
		s := probe.Script{ID: fmt.Sprintf("h%d", atomic.AddInt64(&idSeq, 1)), Status: 200, Chunks: [][]byte{[]byte("alive")}}
		resp, err := srv.Once(addr, "GET", srv.Request("GET", "/health", "localhost", [][2]string{{"X-Probe", probe.Encode(&s)}, {"Connection", "close"}}, nil))
		probe.Take(s.ID)
		if err != nil || resp.Status != 200 || string(resp.Body) != "alive" {
			st := 0
			if resp != nil {
				st = resp.Status
			}
			return fmt.Errorf("after %s the server no longer serves a plain request on a new connection (err=%v status=%d)", after, err, st)
		}
		return nil
	}
	seq := make([]*seqObs, len(c.Reqs))
	for i, r := range c.Reqs {
		if len(c.Wrappers) >= 2 && !(r.Kind == "written" && r.Script.Status == 200) {
			nontrivial++
		}
		s := r.Script
		s.ID = fmt.Sprintf("q%d", atomic.AddInt64(&idSeq, 1))
		hdr := [][2]string{{"X-Probe", probe.Encode(&s)}, {"Connection", "close"}}
		if r.AE != "-" {
			hdr = append(hdr, [2]string{"Accept-Encoding", r.AE})
		}
		if kv := strings.SplitN(r.Cond, ": ", 2); len(kv) == 2 {
			hdr = append(hdr, [2]string{kv[0], kv[1]})
		}
		srv.LogBuf.Reset()
		resp, rerr := srv.Once(addr, r.Method, srv.Request(r.Method, r.Path, "localhost", hdr, nil))
		res := probe.Take(s.ID)
		logs := srv.LogBuf.String()
		desc := fmt.Sprintf("request %d %s %s AE=%q cond=%q kind=%s script={status:%d chunks:%d ret:%d err:%q} wrappers=%v", i, r.Method, r.Path, r.AE, r.Cond, r.Kind, s.Status, len(s.Chunks), s.Ret, s.Err, c.Wrappers)
		if res == nil {
			// the request never reached the innermost handler (e.g. a wrapper answered): not this property's subject
			if rerr != nil {
				return nontrivial, fmt.Errorf("%s: no well-formed response and the inner handler did not run: %v", desc, rerr)
			}
			continue
		}
		superfluous := strings.Contains(logs, "superfluous response.WriteHeader")
		if superfluous && r.Kind != "panic-after" && r.Kind != "abuse" {
			// the line may stem from an earlier request whose handler outlived its
			// response (flushed, then panicked): let the server settle and ask again
			time.Sleep(50 * time.Millisecond)
			s2 := r.Script
			s2.ID = fmt.Sprintf("q%d", atomic.AddInt64(&idSeq, 1))
			hdr2 := append([][2]string{{"X-Probe", probe.Encode(&s2)}}, hdr[1:]...)
			srv.LogBuf.Reset()
			srv.Once(addr, r.Method, srv.Request(r.Method, r.Path, "localhost", hdr2, nil))
			probe.Take(s2.ID)
			time.Sleep(5 * time.Millisecond)
			logs = srv.LogBuf.String()
			superfluous = strings.Contains(logs, "superfluous response.WriteHeader")
		}
		switch r.Kind {
		case "panic-after", "abuse":
			// only containment: the server keeps serving
			if err := alive(desc); err != nil {
				return nontrivial, err
			}
			continue
		}
		if rerr != nil {
			return nontrivial, fmt.Errorf("%s: no well-formed response: %v", desc, rerr)
		}
		if superfluous {
			return nontrivial, fmt.Errorf("%s: the response header was committed more than once (net/http: superfluous response.WriteHeader): %s", desc, firstLine(logs, "superfluous"))
		}
		body, derr := decodeBody(resp)
		if derr != nil {
			return nontrivial, fmt.Errorf("%s: body does not decode per its Content-Encoding: %v", desc, derr)
		}
		if cl := resp.Header.Get("Content-Length"); cl != "" && bodyAllowed(r.Method, resp.Status) && cl != fmt.Sprint(len(resp.Body)) {
			return nontrivial, fmt.Errorf("%s: Content-Length %s but %d bytes on the wire", desc, cl, len(resp.Body))
		}
		if r.Kind == "error-nowrite" || r.Kind == "written" || r.Kind == "template" {
			seq[i] = &seqObs{resp.Status, string(body), resp.Header.Get("X-Inner"), resp.Header.Get("X-Wrap")}
		}
		switch r.Kind {
		case "error-nowrite":
			if resp.Status != s.Ret {
				return nontrivial, fmt.Errorf("%s: handler returned %d without writing, client got status %d", desc, s.Ret, resp.Status)
			}
			if bodyAllowed(r.Method, resp.Status) {
				want, _ := c.errorBody(s.Ret)
				if string(body) != want {
					return nontrivial, fmt.Errorf("%s: handler returned %d without writing; error body is %q, want %q", desc, s.Ret, clip(body), want)
				}
			}
		case "written":
			want := s.Status
			if want == 0 {
				want = 200
			}
			if resp.Status != want {
				return nontrivial, fmt.Errorf("%s: handler wrote status %d, client got %d (body %q)", desc, want, resp.Status, clip(body))
			}
			if bodyAllowed(r.Method, resp.Status) {
				var wb []byte
				for _, ch := range s.Chunks {
					wb = append(wb, ch...)
				}
				if !bytes.Equal(body, wb) {
					return nontrivial, fmt.Errorf("%s: handler wrote %d body bytes %q, client decoded %d bytes %q", desc, len(wb), clip(wb), len(body), clip(body))
				}
			}
			if resp.Header.Get("X-Inner") != "kept" {
				return nontrivial, fmt.Errorf("%s: header X-Inner set by the handler is missing in the response", desc)
			}
			if c.has("header") && resp.Header.Get("X-Wrap") != "yes" {
				return nontrivial, fmt.Errorf("%s: configured header X-Wrap missing on a handler-written response", desc)
			}
		case "panic-before":
			if resp.Status != 500 {
				return nontrivial, fmt.Errorf("%s: handler panicked before writing, client got status %d, want 500", desc, resp.Status)
			}
		case "template":
			src := string(s.Chunks[0])
			if !c.has("templates") {
				if resp.Status != 200 || (bodyAllowed(r.Method, 200) && string(body) != src) {
					return nontrivial, fmt.Errorf("%s: without templates the body %q must arrive literally; got %d %q", desc, src, resp.Status, clip(body))
				}
				break
			}
			var want string
			switch {
			case strings.HasPrefix(src, "A{{"):
				want = "ABC"
			case strings.HasPrefix(src, "x{{"):
				want = "x" + r.Method + "y"
			}
			if want != "" {
				if resp.Status != 200 || (bodyAllowed(r.Method, 200) && string(body) != want) {
					return nontrivial, fmt.Errorf("%s: template %q must render to %q; got %d %q", desc, src, want, resp.Status, clip(body))
				}
			} else {
				// the template fails: an error status reported without writing
				if resp.Status != 500 {
					return nontrivial, fmt.Errorf("%s: failing template %q must give 500, got %d %q", desc, src, resp.Status, clip(body))
				}
				if bodyAllowed(r.Method, 500) {
					if wantBody, _ := c.errorBody(500); string(body) != wantBody {
						return nontrivial, fmt.Errorf("%s: failing template: error body is %q, want %q", desc, clip(body), wantBody)
					}
				}
			}
		case "nowrite-ok":
			// handler returned < 400 without writing: only well-formedness
		}
		if r.Kind == "panic-before" {
			if err := alive(desc); err != nil {
				return nontrivial, err
			}
		}
	}
	// the non-panicking requests once more, several at a time: a request's response
	// must not depend on what the wrappers are doing for other requests meanwhile
	var wg sync.WaitGroup
	cerr := make(chan error, 8)
	for g := 0; g < 6; g++ {
		wg.Add(1)
		go func(g int) {
			defer wg.Done()
			for k := range c.Reqs {
				i := (k*5 + g*3) % len(c.Reqs)
				r := c.Reqs[i]
				if seq[i] == nil {
					continue
				}
				s := r.Script
				s.ID = fmt.Sprintf("q%d", atomic.AddInt64(&idSeq, 1))
				hdr := [][2]string{{"X-Probe", probe.Encode(&s)}, {"Connection", "close"}}
				if r.AE != "-" {
					hdr = append(hdr, [2]string{"Accept-Encoding", r.AE})
				}
				if kv := strings.SplitN(r.Cond, ": ", 2); len(kv) == 2 {
					hdr = append(hdr, [2]string{kv[0], kv[1]})
				}
				resp, rerr := srv.Once(addr, r.Method, srv.Request(r.Method, r.Path, "localhost", hdr, nil))
				probe.Take(s.ID)
				if rerr != nil {
					continue
				}
				body, derr := decodeBody(resp)
				if derr != nil {
					body = []byte("undecodable: " + derr.Error())
				}
				got := seqObs{resp.Status, string(body), resp.Header.Get("X-Inner"), resp.Header.Get("X-Wrap")}
				if got != *seq[i] {
					select {
					case cerr <- fmt.Errorf("request %d %s %s AE=%q kind=%s wrappers=%v answered differently while 5 other requests were in flight: status %d, %d decoded body bytes %q; on its own: status %d, %d bytes %q", i, r.Method, r.Path, r.AE, r.Kind, c.Wrappers, got.status, len(got.body), clip([]byte(got.body)), seq[i].status, len(seq[i].body), clip([]byte(seq[i].body))):
					default:
					}
					return
				}
			}
		}(g)
	}
	wg.Wait()
	select {
	case err := <-cerr:
		return nontrivial, err
	default:
	}
	return nontrivial, alive("the whole case")
}

type seqObs struct {
	status             int
	body, inner, xwrap string
}

func firstLine(logs, needle string) string {
	for _, l := range strings.Split(logs, "\n") {
		if strings.Contains(l, needle) {
			return l
		}
	}
	return ""
}

func clip(b []byte) string {
	if len(b) > 60 {
		return string(b[:60]) + "..."
	}
	return string(b)
}

// ---------------------------------------------------------------------------

var errStatuses = []int{400, 403, 404, 405, 410, 418, 500, 502, 503, 404, 500, 422, 431, 451, 499, 509, 520, 599}
var writeStatuses = []int{200, 200, 0, 201, 204, 301, 304, 404, 500, 418}
var paths = []string{"/p/x.html", "/p/x.txt", "/p/x", "/q/y.json", "/", "/p/x.xyz"}

func genReq(t *rapid.T, lb string) Req {
	r := Req{Method: rapid.SampledFrom([]string{"GET", "GET", "GET", "POST", "HEAD", "DELETE"}).Draw(t, lb+"m"),
		Path: rapid.SampledFrom(paths).Draw(t, lb+"p"),
		AE:   rapid.SampledFrom([]string{"-", "gzip", "gzip, br", "identity"}).Draw(t, lb+"ae")}
	if rapid.IntRange(0, 3).Draw(t, lb+"cond") == 0 {
		// headers that make file-serving code answer 304/206/412/416; the inner handler's answer must not be affected
		r.Cond = rapid.SampledFrom([]string{"If-Modified-Since: Fri, 01 Jan 2100 00:00:00 GMT", "If-Modified-Since: Thu, 01 Jan 1970 00:00:01 GMT", "Range: bytes=0-4", "Range: bytes=100000-", "Range: bytes=-3", "If-None-Match: *", "If-Match: \"nope\"", "If-Unmodified-Since: Thu, 01 Jan 1970 00:00:01 GMT", "If-Range: \"x\""}).Draw(t, lb+"condv")
	}
	s := probe.Script{Header: map[string][]string{}}
	k := rapid.IntRange(0, 19).Draw(t, lb+"k")
	switch {
	case k < 6:
		r.Kind = "error-nowrite"
		s.NoWrite = true
		s.Ret = rapid.SampledFrom(errStatuses).Draw(t, lb+"ret")
		if rapid.Bool().Draw(t, lb+"err") {
			s.Err = rapid.SampledFrom([]string{"scripted error", "scripted error", "context.Canceled", "context.DeadlineExceeded", "io.EOF", "os.ErrNotExist", "http.ErrAbortHandler"}).Draw(t, lb+"errv")
		}
	case k < 15:
		r.Kind = "written"
		s.Status = rapid.SampledFrom(writeStatuses).Draw(t, lb+"st")
		s.Header["X-Inner"] = []string{"kept"}
		if s.Status == 301 {
			s.Header["Location"] = []string{"/elsewhere"}
		}
		if rapid.IntRange(0, 2).Draw(t, lb+"ct") != 0 {
			s.Header["Content-Type"] = []string{rapid.SampledFrom([]string{"text/plain; charset=utf-8", "text/html; charset=utf-8", "application/json"}).Draw(t, lb+"ctv")}
		}
		if s.Status != 204 && s.Status != 304 {
			n := rapid.IntRange(0, 3).Draw(t, lb+"nch")
			total := 0
			for i := 0; i < n; i++ {
				sz := rapid.SampledFrom([]int{0, 1, 20, 600, 5000}).Draw(t, fmt.Sprintf("%sc%d", lb, i))
				s.Chunks = append(s.Chunks, []byte(strings.Repeat(fmt.Sprintf("c%d plain text body. ", i), sz/19+1))[:sz])
				s.Flush = append(s.Flush, rapid.IntRange(0, 3).Draw(t, fmt.Sprintf("%sf%d", lb, i)) == 0)
				total += sz
			}
			if rapid.Bool().Draw(t, lb+"cl") {
				s.Header["Content-Length"] = []string{fmt.Sprint(total)}
			}
		}
		if s.Status == 0 && len(s.Chunks) == 0 {
			s.Status = 200 // "written" must write something: an implicit 200 with no Write call writes nothing
		}
		if rapid.IntRange(0, 3).Draw(t, lb+"werr") == 0 {
			s.Err = "scripted error after writing"
		}
		if s.Status != 0 && rapid.IntRange(0, 7).Draw(t, lb+"early") == 0 {
			s.Early = 103 // an informational response first: the final status is still the handler's
		}
		if rapid.IntRange(0, 7).Draw(t, lb+"pce") == 0 && s.Status != 204 && s.Status != 304 {
			// a response that is already encoded: compression must step aside
			s.Header["Content-Encoding"] = []string{rapid.SampledFrom([]string{"br", "x-custom"}).Draw(t, lb+"pcev")}
		}
	case k < 16:
		r.Kind = "abuse"
		s.Status = 200
		s.Chunks = [][]byte{[]byte("partial")}
		s.Ret = rapid.SampledFrom([]int{500, 502, 404}).Draw(t, lb+"ret")
	case k < 18:
		r.Kind = "panic-before"
		s.Panic = "before"
		s.PanicWith = rapid.SampledFrom([]string{"", "", "error", "runtime", "abort"}).Draw(t, lb+"pw")
	case k < 19:
		r.Kind = "panic-after"
		s.Status = 200
		s.Chunks = [][]byte{[]byte("written before the panic")}
		s.Flush = []bool{rapid.Bool().Draw(t, lb+"pf")}
		s.Panic = "after"
		s.PanicWith = rapid.SampledFrom([]string{"", "", "error", "runtime", "abort"}).Draw(t, lb+"pw")
	case k == 19 && rapid.Bool().Draw(t, lb+"tpl"):
		// a body with template actions: executed if 'templates' wraps the path, literal otherwise
		r.Kind = "template"
		r.Path = rapid.SampledFrom([]string{"/p/t.html", "/p/t.txt"}).Draw(t, lb+"tp")
		s.Status = 200
		s.Header["X-Inner"] = []string{"kept"}
		s.Header["Content-Type"] = []string{"text/html; charset=utf-8"}
		body := rapid.SampledFrom([]string{"A{{\"B\"}}C", "x{{.Method}}y", "pre {{.Include \"missing-file.txt\"}} post", "{{template \"nope\"}}"}).Draw(t, lb+"tb")
		s.Chunks = [][]byte{[]byte(body)}
		s.Header["Content-Length"] = []string{fmt.Sprint(len(body))}
	default:
		r.Kind = "nowrite-ok"
		s.NoWrite = true
		s.Ret = rapid.SampledFrom([]int{0, 200, 302}).Draw(t, lb+"ret")
	}
	r.Script = s
	return r
}

func genCase(t *rapid.T) *Case {
	c := &Case{}
	picked := rapid.SliceOfNDistinct(rapid.SampledFrom(wrapperNames), 1, 8, func(s string) string { return s }).Draw(t, "wrappers")
	// at most one errors variant
	seenErr, seenGz := false, false
	for _, w := range picked {
		if strings.HasPrefix(w, "errors") {
			if seenErr {
				continue
			}
			seenErr = true
		}
		if strings.HasPrefix(w, "gzip") {
			if seenGz {
				continue
			}
			seenGz = true
		}
		c.Wrappers = append(c.Wrappers, w)
	}
	sort.Strings(c.Wrappers)
	n := rapid.IntRange(3, 12).Draw(t, "nreq")
	hasTemplates := false
	for _, w := range c.Wrappers {
		if w == "templates" {
			hasTemplates = true
		}
	}
	for i := 0; i < n; i++ {
		r := genReq(t, fmt.Sprintf("r%d", i))
		if hasTemplates && r.Kind != "error-nowrite" {
			// templates re-serves what the handler wrote as content of its own and honours
			// conditional and range requests on it: allowed ("configured changes"), so not generated
			r.Cond = ""
		}
		c.Reqs = append(c.Reqs, r)
	}
	return c
}

func TestContract(t *testing.T) {
	if vt.ReplayPath() != "" {
		t.Skip("replay mode")
	}
	rapid.Check(t, func(t *rapid.T) {
		c := genCase(t)
		nt, err := runCase(c)
		classes := []string{fmt.Sprintf("wrappers=%d", len(c.Wrappers))}
		kinds := map[string]bool{}
		for _, r := range c.Reqs {
			kinds[r.Kind] = true
		}
		for k := range kinds {
			classes = append(classes, "kind:"+k)
		}
		for _, w := range c.Wrappers {
			classes = append(classes, "w:"+w)
		}
		vt.Record("contract", c, nt > 0, classes...)
		vt.Extra("contract", "requests", len(c.Reqs))
		vt.Extra("contract", "nontrivial_requests", nt)
		vt.Check(t, "contract", c, err)
	})
}

func replayCase(rf *vt.ReplayFile) error {
	var c Case
	if err := vt.Decode(rf, &c); err != nil {
		return err
	}
	_, err := runCase(&c)
	return err
}

func TestReplay(t *testing.T) { vt.RunReplay(t, replayCase) }
func TestCorpus(t *testing.T) { vt.RunCorpus(t, replayCase) }
