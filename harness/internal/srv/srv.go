// Package srv starts real casket instances from Casketfile text and talks to
// them over loopback sockets with a raw HTTP client (no client-side
// cleaning of request targets or headers).
package srv

import (
	"bufio"
	"bytes"
	"fmt"
	"io"
	"log"
	"net"
	"net/http"
	"strings"
	"sync"
	"time"

	"github.com/tmpim/casket"
	_ "github.com/tmpim/casket/caskethttp" // registers the http server type and all standard directives
)

// LogBuf captures the process log (casket logs through the std logger).
var LogBuf = &SyncBuffer{}

type SyncBuffer struct {
	mu sync.Mutex
	b  bytes.Buffer
}

func (s *SyncBuffer) Write(p []byte) (int, error) {
	s.mu.Lock()
	defer s.mu.Unlock()
	if s.b.Len() > 8<<20 {
		s.b.Reset()
	}
	return s.b.Write(p)
}
func (s *SyncBuffer) String() string {
	s.mu.Lock()
	defer s.mu.Unlock()
	return s.b.String()
}
func (s *SyncBuffer) Reset() {
	s.mu.Lock()
	defer s.mu.Unlock()
	s.b.Reset()
}

func init() {
	casket.Quiet = true
	log.SetOutput(LogBuf)
}

// Start loads the Casketfile text as the http server type.
func Start(text, path string) (*casket.Instance, error) {
	if path == "" {
		path = "Casketfile"
	}
	return casket.Start(casket.CasketfileInput{Contents: []byte(text), Filepath: path, ServerTypeName: "http"})
}

// Stop stops the instance's servers and waits for them.
func Stop(inst *casket.Instance) {
	if inst == nil {
		return
	}
	inst.ShutdownCallbacks()
	inst.Stop()
	done := make(chan struct{})
	go func() { inst.Wait(); close(done) }()
	select {
	case <-done:
	case <-time.After(10 * time.Second):
	}
}

// Settle makes one throw-away connection to every TCP listener of the instance and waits a moment, so
// that each accept loop has gone through its first accept call and is parked in the network poller.
// Instance.Restart duplicates the listening sockets through os.File.Fd, which puts the shared open file
// description into blocking mode for a few microseconds; an accept call entered in exactly that window
// blocks in the kernel until the next connection arrives, and with it the old server's Stop inside
// Restart.  A harness that reloads an idle server right after starting it would sit there for ever.
func Settle(inst *casket.Instance) {
	for _, a := range Addrs(inst) {
		if c, err := net.DialTimeout("tcp", Loopback(a), time.Second); err == nil {
			NoLinger(c)
			c.Close()
		}
	}
	time.Sleep(2 * time.Millisecond)
}

// Addrs returns the TCP listen addresses of the instance.
func Addrs(inst *casket.Instance) []string {
	var out []string
	for _, s := range inst.Servers() {
		if a := s.Addr(); a != nil {
			out = append(out, a.String())
		}
	}
	return out
}

// PortOf returns the port of a host:port address.
func PortOf(addr string) string {
	_, p, _ := net.SplitHostPort(addr)
	return p
}

// Loopback rewrites a listen address like [::]:1234 to 127.0.0.1:1234.
func Loopback(addr string) string {
	return net.JoinHostPort("127.0.0.1", PortOf(addr))
}

// Resp is a fully read response.
type Resp struct {
	Status  int
	Proto   string
	Header  http.Header
	Trailer http.Header
	Body    []byte
	Close   bool
	Raw     []byte // the bytes read off the wire for this response (diagnostics)
	// Informational: status codes of the 1xx responses that preceded this one
	Informational []int
}

// Conn is a raw keep-alive client connection.
type Conn struct {
	c   net.Conn
	br  *bufio.Reader
	raw bytes.Buffer
}

func Dial(addr string) (*Conn, error) {
	c, err := net.DialTimeout("tcp", addr, 5*time.Second)
	if err != nil {
		return nil, err
	}
	cn := &Conn{c: c}
	cn.br = bufio.NewReader(io.TeeReader(c, &cn.raw))
	return cn, nil
}

// Close resets the connection instead of closing it gracefully: thousands of
// short connections per second would otherwise pile up in TIME_WAIT and
// exhaust the ephemeral ports. Everything of interest has been read by then.
func (c *Conn) Close() {
	NoLinger(c.c)
	c.c.Close()
}

// NoLinger makes the next Close of a TCP connection send RST.
func NoLinger(c net.Conn) {
	if tc, ok := c.(*net.TCPConn); ok {
		tc.SetLinger(0)
	}
}

// Do writes raw request bytes and reads one response.  method is needed to
// know whether a body follows (HEAD).
func (c *Conn) Do(method string, raw []byte) (*Resp, error) {
	c.c.SetDeadline(time.Now().Add(20 * time.Second))
	if _, err := c.c.Write(raw); err != nil {
		return nil, err
	}
	return c.Read(method)
}

func (c *Conn) Read(method string) (*Resp, error) {
	resp, err := http.ReadResponse(c.br, &http.Request{Method: method})
	if err != nil {
		return nil, err
	}
	// informational responses (100 Continue, 103 Early Hints ...) precede the final one
	var informational []int
	for resp.StatusCode >= 100 && resp.StatusCode < 200 && resp.StatusCode != 101 && len(informational) < 8 {
		informational = append(informational, resp.StatusCode)
		resp.Body.Close()
		if resp, err = http.ReadResponse(c.br, &http.Request{Method: method}); err != nil {
			return nil, err
		}
	}
	body, err := io.ReadAll(resp.Body)
	resp.Body.Close()
	if err != nil {
		return nil, fmt.Errorf("reading body: %v", err)
	}
	raw := append([]byte(nil), c.raw.Bytes()...)
	c.raw.Reset()
	return &Resp{Status: resp.StatusCode, Proto: resp.Proto, Header: resp.Header, Trailer: resp.Trailer, Body: body, Close: resp.Close, Raw: raw, Informational: informational}, nil
}

// Request builds a minimal raw HTTP/1.1 request.
func Request(method, target, host string, hdr [][2]string, body []byte) []byte {
	var sb strings.Builder
	fmt.Fprintf(&sb, "%s %s HTTP/1.1\r\nHost: %s\r\n", method, target, host)
	for _, kv := range hdr {
		fmt.Fprintf(&sb, "%s: %s\r\n", kv[0], kv[1])
	}
	if body != nil {
		fmt.Fprintf(&sb, "Content-Length: %d\r\n", len(body))
	}
	sb.WriteString("\r\n")
	return append([]byte(sb.String()), body...)
}

// Once sends one request on a fresh connection.
func Once(addr, method string, raw []byte) (*Resp, error) {
	c, err := Dial(addr)
	if err != nil {
		return nil, err
	}
	defer c.Close()
	return c.Do(method, raw)
}
