// Package lifecycle registers, through casket's public plugin API, a fake
// server type "lifecycle" whose servers and callbacks do nothing but record
// events, so that the order and multiplicity of lifecycle callbacks across
// start / reload / stop histories can be compared with a reference model.
package lifecycle

import (
	"fmt"
	"net"
	"strconv"
	"strings"
	"sync"
	"time"

	"github.com/tmpim/casket"
	"github.com/tmpim/casket/casketfile"
)

var (
	mu     sync.Mutex
	events []string
	// Sink, if set, also receives every event (the child process writes them to a file)
	Sink func(string)
	once sync.Once
	// busy is a port that is already bound: "fail listen" makes a server listen there
	busy net.Listener
)

func record(s string) {
	mu.Lock()
	events = append(events, s)
	mu.Unlock()
	if Sink != nil {
		Sink(s)
	}
}

// Events returns a copy of the trace.
func Events() []string {
	mu.Lock()
	defer mu.Unlock()
	return append([]string{}, events...)
}

// Reset clears the trace.
func Reset() {
	mu.Lock()
	events = nil
	mu.Unlock()
}

var release = make(chan struct{})

// ReleaseAll lets every non-graceful fake server return from Serve.
func ReleaseAll() {
	mu.Lock()
	close(release)
	release = make(chan struct{})
	mu.Unlock()
}

type ctx struct {
	inst     *casket.Instance
	gen      string
	servers  int
	graceful bool
	fail     string
	stopErr  bool // the graceful servers' Stop reports an error (after stopping)
	slowMs   int  // the shutdown callback takes this long before it is done
}

func (c *ctx) InspectServerBlocks(file string, sb []casketfile.ServerBlock) ([]casketfile.ServerBlock, error) {
	return sb, nil
}

func (c *ctx) MakeServers() ([]casket.Server, error) {
	if c.fail == "makeservers" {
		return nil, fmt.Errorf("lifecycle: injected MakeServers failure")
	}
	var out []casket.Server
	for i := 0; i < c.servers; i++ {
		s := &server{gen: c.gen, idx: i, stop: make(chan struct{}), failListen: c.fail == "listen" && i == c.servers-1, stopErr: c.stopErr}
		if c.graceful {
			out = append(out, &gracefulServer{s})
		} else {
			out = append(out, s)
		}
	}
	return out, nil
}

type server struct {
	gen        string
	idx        int
	stop       chan struct{}
	stopOnce   sync.Once
	failListen bool
	stopErr    bool
	ln         net.Listener
}

func (s *server) name() string { return s.gen + "." + strconv.Itoa(s.idx) }

func (s *server) Listen() (net.Listener, error) {
	if s.failListen {
		return net.Listen("tcp", busy.Addr().String())
	}
	ln, err := net.Listen("tcp", "127.0.0.1:0")
	if err != nil {
		return nil, err
	}
	record("listen#" + s.name())
	return ln, nil
}
func (s *server) ListenPacket() (net.PacketConn, error) { return nil, nil }
func (s *server) Serve(ln net.Listener) error {
	s.ln = ln
	record("serve#" + s.name())
	// casket never stops a non-graceful server; this one serves until the
	// harness releases it at the end of the case
	mu.Lock()
	ch := release
	mu.Unlock()
	<-ch
	return nil
}
func (s *server) ServePacket(net.PacketConn) error { return nil }

type gracefulServer struct{ *server }

func (g *gracefulServer) Serve(ln net.Listener) error {
	g.ln = ln
	record("serve#" + g.name())
	<-g.stop
	return nil
}
func (g *gracefulServer) Stop() error {
	g.stopOnce.Do(func() {
		record("stop#" + g.name())
		if g.ln != nil {
			g.ln.Close()
		}
		close(g.stop)
	})
	if g.stopErr {
		return fmt.Errorf("lifecycle: injected error from Stop (the server has stopped)")
	}
	return nil
}

// Address pairs servers across generations by index.
func (g *gracefulServer) Address() string {
	if g.failListen {
		return "srv-that-fails-to-listen" // never paired with a running server's socket
	}
	return "srv" + strconv.Itoa(g.idx)
}
func (g *gracefulServer) WrapListener(ln net.Listener) net.Listener { return ln }

// Register makes the server type and its directives known (once per process).
func Register() {
	once.Do(func() {
		busy, _ = net.Listen("tcp", "127.0.0.1:0")
		casket.RegisterServerType("lifecycle", casket.ServerType{
			Directives: func() []string { return []string{"opt", "gen", "servers", "fail"} },
			NewContext: func(inst *casket.Instance) casket.Context { return &ctx{inst: inst, servers: 1} },
		})
		casket.RegisterPlugin("gen", casket.Plugin{ServerType: "lifecycle", Action: func(c *casket.Controller) error {
			cx := c.Context().(*ctx)
			for c.Next() {
				if !c.NextArg() {
					return c.ArgErr()
				}
				cx.gen = c.Val()
			}
			g := cx.gen
			c.OnFirstStartup(func() error { record("firststartup#" + g); return nil })
			c.OnStartup(func() error {
				record("startup#" + g)
				if cx.fail == "startup" {
					return fmt.Errorf("lifecycle: injected startup failure")
				}
				return nil
			})
			c.OnRestart(func() error {
				record("restart#" + g)
				if cx.fail == "onrestart" {
					return fmt.Errorf("lifecycle: injected restart-callback failure")
				}
				return nil
			})
			c.OnRestartFailed(func() error { record("restartfailed#" + g); return nil })
			c.OnShutdown(func() error {
				if cx.slowMs > 0 {
					time.Sleep(time.Duration(cx.slowMs) * time.Millisecond)
				}
				record("shutdown#" + g) // recorded when the callback is done
				return nil
			})
			c.OnFinalShutdown(func() error { record("finalshutdown#" + g); return nil })
			return nil
		}})
		casket.RegisterPlugin("opt", casket.Plugin{ServerType: "lifecycle", Action: func(c *casket.Controller) error {
			cx := c.Context().(*ctx)
			for c.Next() {
				for _, a := range c.RemainingArgs() {
					switch {
					case a == "stoperr":
						cx.stopErr = true
					case strings.HasPrefix(a, "slow="):
						cx.slowMs, _ = strconv.Atoi(strings.TrimPrefix(a, "slow="))
					default:
						return c.Err("lifecycle: unknown option")
					}
				}
			}
			return nil
		}})
		casket.RegisterPlugin("servers", casket.Plugin{ServerType: "lifecycle", Action: func(c *casket.Controller) error {
			cx := c.Context().(*ctx)
			for c.Next() {
				args := c.RemainingArgs()
				if len(args) < 1 {
					return c.ArgErr()
				}
				n, err := strconv.Atoi(args[0])
				if err != nil {
					return c.Err("bad server count")
				}
				cx.servers = n
				cx.graceful = len(args) > 1 && args[1] == "graceful"
			}
			return nil
		}})
		casket.RegisterPlugin("fail", casket.Plugin{ServerType: "lifecycle", Action: func(c *casket.Controller) error {
			cx := c.Context().(*ctx)
			for c.Next() {
				if !c.NextArg() {
					return c.ArgErr()
				}
				cx.fail = c.Val()
				if cx.fail == "setup" {
					return c.Err("lifecycle: injected setup failure")
				}
			}
			return nil
		}})
	})
}

// Text renders a configuration of the fake server type.
func Text(gen string, servers int, graceful bool, fail string, opts ...string) string {
	g := ""
	if graceful {
		g = " graceful"
	}
	s := "site {\n"
	if len(opts) > 0 {
		s += "\topt " + strings.Join(opts, " ") + "\n"
	}
	s += fmt.Sprintf("\tgen %s\n\tservers %d%s\n", gen, servers, g)
	if fail == "parse" {
		return s + "\tgen {\n"
	}
	if fail != "" {
		s += "\tfail " + fail + "\n"
	}
	return s + "}\n"
}
