// Package fixture builds site roots whose every file carries a unique
// token, so that the provenance of any byte run in any response (also
// inside archives and gzip bodies) is decidable by scanning the decoded
// body for tokens.
package fixture

import (
	"archive/tar"
	"archive/zip"
	"bytes"
	"compress/gzip"
	"fmt"
	"io"
	"os"
	"path/filepath"
	"regexp"
	"sort"
	"strings"
)

// File describes one fixture file.
type File struct {
	Rel     string // slash path relative to the root, "" prefix "../" for outside files
	Token   string
	Content []byte
	Outside bool
	Sibling string // "", "gzip", "br", "zstd": precompressed sibling of the file without the extension
}

// Tree is a materialised fixture.
type Tree struct {
	Base  string // parent directory
	Root  string // Base/root
	Files map[string]*File
	ByTok map[string]*File
	Dirs  map[string]bool
}

var tokRe = regexp.MustCompile(`TOK[0-9A-Z]{6,}X`)

func token(rel string) string {
	// stable, unique, upper-case alphanumeric
	h := uint64(1469598103934665603)
	for i := 0; i < len(rel); i++ {
		h ^= uint64(rel[i])
		h *= 1099511628211
	}
	return fmt.Sprintf("TOK%XX", h)
}

// Spec lists the files of the standard tree (relative to root; "../x" = outside).
var Spec = []string{
	"Casketfile",
	"index.html",
	"a.txt", "a.txt.gz", "a.txt.br", "a.txt.zst",
	"b.html", "b.html.gz",
	"c.txt", "c.txt.zst",
	"dir/index.html", "dir/index.html.gz", "dir/b.txt", "dir/sub/c.txt", "dir/sub/deep/d.txt",
	"noindex/d.txt", "noindex/e.html", "noindex/priv/n1.txt", "noindex/priv/more/n2.txt", "noindex/UPPER.TXT", "noindex/inner/f.txt", "noindex/d.txt.gz",
	"secret/index.html", "secret/s1.txt", "secret/s1.txt.gz", "secret/deep/s2.txt", "secret/pub/p.txt", "secret/page.html", "secret/t.md",
	// siblings of secret/pub whose names begin with "pub": an excluded directory is not a name prefix
	"secret/public.key", "secret/pubkeys/k.txt",
	"internal/i1.txt", "internal/sub/i2.txt",
	"public/p1.txt", "public/tpl.html", "public/readme.md",
	"sp ace/g.txt",
	".hidden/h.txt",
	"../outside/o.txt", "../outside/index.html", "../outside.txt",
}

// Build materialises the standard tree under base (created).
func Build(base string) (*Tree, error) {
	t := &Tree{Base: base, Root: filepath.Join(base, "root"), Files: map[string]*File{}, ByTok: map[string]*File{}, Dirs: map[string]bool{"": true}}
	for _, rel := range Spec {
		f := &File{Rel: rel, Token: token(rel)}
		if strings.HasPrefix(rel, "../") {
			f.Outside = true
		}
		body := fmt.Sprintf("%s file %s line one\nsome more text to make it longer than a few bytes %s\n", f.Token, rel, strings.Repeat("lorem ", 20))
		switch {
		case rel == "Casketfile":
			body = "# " + f.Token + " origin casketfile of the site (placeholder content; the real config is passed as text)\n"
		case strings.HasSuffix(rel, ".gz"):
			f.Sibling = "gzip"
			var b bytes.Buffer
			zw := gzip.NewWriter(&b)
			zw.Write([]byte(body))
			zw.Close()
			f.Content = b.Bytes()
		case strings.HasSuffix(rel, ".br"):
			f.Sibling = "br"
		case strings.HasSuffix(rel, ".zst"):
			f.Sibling = "zstd"
		case strings.HasSuffix(rel, ".md"):
			body = "# " + f.Token + " heading\n\nmarkdown body " + rel + "\n"
		case strings.HasSuffix(rel, "tpl.html"):
			body = "<html>" + f.Token + " template {{.Method}}</html>\n"
		}
		if f.Content == nil {
			f.Content = []byte(body)
		}
		p := filepath.Join(t.Root, filepath.FromSlash(rel))
		if err := os.MkdirAll(filepath.Dir(p), 0o755); err != nil {
			return nil, err
		}
		if err := os.WriteFile(p, f.Content, 0o644); err != nil {
			return nil, err
		}
		t.Files[rel] = f
		t.ByTok[f.Token] = f
		if !f.Outside {
			d := rel
			for {
				i := strings.LastIndex(d, "/")
				if i < 0 {
					break
				}
				d = d[:i]
				t.Dirs[d] = true
			}
		}
	}
	// a second name for the origin Casketfile (a hard link, as deploy tools and
	// editors leave them): same bytes, same token, so that content served under
	// the alias is still attributed to the Casketfile
	if cf := t.Files["Casketfile"]; cf != nil {
		alias := "dir/alias-of-casketfile.conf"
		if err := os.Link(filepath.Join(t.Root, "Casketfile"), filepath.Join(t.Root, filepath.FromSlash(alias))); err == nil {
			t.Files[alias] = &File{Rel: alias, Token: cf.Token, Content: cf.Content}
		}
	}
	return t, nil
}

// TokensIn returns the fixture files whose token occurs in b (also inside
// gzip members: callers decode first).
func (t *Tree) TokensIn(b []byte) []*File {
	seen := map[string]bool{}
	var out []*File
	for _, m := range tokRe.FindAll(b, -1) {
		if f := t.ByTok[string(m)]; f != nil && !seen[f.Rel] {
			seen[f.Rel] = true
			out = append(out, f)
		}
	}
	sort.Slice(out, func(i, j int) bool { return out[i].Rel < out[j].Rel })
	return out
}

// Entry is one member of a decoded archive.
type Entry struct {
	Name  string
	IsDir bool
	Data  []byte
}

// Unarchive decodes zip, tar and tar.gz bodies.
func Unarchive(kind string, b []byte) ([]Entry, error) {
	switch kind {
	case "zip":
		zr, err := zip.NewReader(bytes.NewReader(b), int64(len(b)))
		if err != nil {
			return nil, err
		}
		var out []Entry
		for _, f := range zr.File {
			e := Entry{Name: f.Name, IsDir: f.FileInfo().IsDir()}
			if !e.IsDir {
				rc, err := f.Open()
				if err != nil {
					return nil, err
				}
				e.Data, err = io.ReadAll(rc)
				rc.Close()
				if err != nil {
					return nil, err
				}
			}
			out = append(out, e)
		}
		return out, nil
	case "tar.gz":
		zr, err := gzip.NewReader(bytes.NewReader(b))
		if err != nil {
			return nil, err
		}
		raw, err := io.ReadAll(zr)
		if err != nil {
			return nil, err
		}
		return Unarchive("tar", raw)
	case "tar":
		tr := tar.NewReader(bytes.NewReader(b))
		var out []Entry
		for {
			h, err := tr.Next()
			if err == io.EOF {
				break
			}
			if err != nil {
				return nil, err
			}
			e := Entry{Name: h.Name, IsDir: h.Typeflag == tar.TypeDir}
			if !e.IsDir {
				e.Data, err = io.ReadAll(tr)
				if err != nil {
					return nil, err
				}
			}
			out = append(out, e)
		}
		return out, nil
	}
	return nil, fmt.Errorf("unknown archive kind %q", kind)
}

// Gunzip decodes a gzip body.
func Gunzip(b []byte) ([]byte, error) {
	zr, err := gzip.NewReader(bytes.NewReader(b))
	if err != nil {
		return nil, err
	}
	return io.ReadAll(zr)
}
