// Package fcgiref is a byte-level FastCGI responder written from the
// FastCGI 1.0 specification, independent of casket's client: it validates
// record framing strictly, decodes name-value pairs itself, records what it
// received and answers from a script (how stdout/stderr are framed into
// records is entirely under the script's control).
package fcgiref

import (
	"encoding/base64"
	"encoding/binary"
	"encoding/json"
	"fmt"
	"io"
	"net"
	"sync"
)

const (
	typeBegin  = 1
	typeAbort  = 2
	typeEnd    = 3
	typeParams = 4
	typeStdin  = 5
	typeStdout = 6
	typeStderr = 7
)

// Script tells the responder how to answer: the stdout stream is Head
// (the CGI header block, including its terminating blank line) followed by
// BodyLen deterministic body bytes (see Body); it is cut into STDOUT records
// of the sizes in Cuts (cycled; a size 0 emits an empty record only in the
// middle of the stream if AllowEmpty), each padded by the next value of
// Padding (cycled). Stderr records are interleaved: Stderr[i] is written
// before the stdout record number StderrAt[i] (counted from 0; a number past
// the end means "after the last data record").
type Script struct {
	Head         string   `json:"head"`
	BodyLen      int      `json:"body_len"`
	Cuts         []int    `json:"cuts"`
	Padding      []int    `json:"padding,omitempty"`
	Stderr       []string `json:"stderr,omitempty"`
	StderrAt     []int    `json:"stderr_at,omitempty"`
	StderrLate   []string `json:"stderr_late,omitempty"` // stderr records written after stdout's end-of-stream record, before END_REQUEST
	Burst        int      `json:"burst,omitempty"`    // that many extra small stderr records ...
	BurstAt      int      `json:"burst_at,omitempty"` // ... before stdout record number BurstAt
	BurstText    string   `json:"burst_text,omitempty"`
	NoFinalEmpty bool     `json:"no_final_empty,omitempty"` // omit the empty stdout record that closes the stream
	NoEnd        bool     `json:"no_end,omitempty"`         // omit END_REQUEST (just close)
	AppStatus    int      `json:"app_status,omitempty"`
	Salt         int      `json:"salt,omitempty"` // varies the body bytes, so that two responses of the same length differ
}

// Body returns the deterministic body of length n.
func Body(n int) []byte { return BodySalted(n, 0) }

// BodySalted returns the deterministic body of length n for a salt.
func BodySalted(n, salt int) []byte {
	b := make([]byte, n)
	for i := range b {
		b[i] = byte('a' + (i*7+i/1013+salt)%26)
	}
	return b
}

type out struct {
	stderr  bool
	data    []byte
	padding int
}

func (sc *Script) records() []out {
	stream := append([]byte(sc.Head), BodySalted(sc.BodyLen, sc.Salt)...)
	var outs []out
	cuts := sc.Cuts
	if len(cuts) == 0 {
		cuts = []int{65535}
	}
	pad := func(i int) int {
		if len(sc.Padding) == 0 {
			return 0
		}
		return sc.Padding[i%len(sc.Padding)]
	}
	emitStderr := func(k int) {
		if sc.Burst > 0 && sc.BurstAt == k {
			for i := 0; i < sc.Burst; i++ {
				outs = append(outs, out{stderr: true, data: []byte(fmt.Sprintf("%s #%d\n", sc.BurstText, i))})
			}
		}
		for i, at := range sc.StderrAt {
			if at == k && i < len(sc.Stderr) {
				outs = append(outs, out{stderr: true, data: []byte(sc.Stderr[i])})
			}
		}
	}
	k := 0
	for i := 0; len(stream) > 0; i++ {
		n := cuts[i%len(cuts)]
		if n <= 0 {
			n = 1
		}
		if n > 65535 {
			n = 65535
		}
		if n > len(stream) {
			n = len(stream)
		}
		emitStderr(k)
		outs = append(outs, out{data: stream[:n], padding: pad(k)})
		stream = stream[n:]
		k++
	}
	for i, at := range sc.StderrAt {
		if at >= k && i < len(sc.Stderr) {
			outs = append(outs, out{stderr: true, data: []byte(sc.Stderr[i])})
		}
	}
	return outs
}

// Seen is what the responder received for one request.
type Seen struct {
	Params       map[string]string
	ParamOrder   []string
	DupParams    []string
	Stdin        []byte
	ProtoErrors  []string
	ParamRecords []int // content lengths of the PARAMS records
	StdinRecords []int
	Role         int
	Flags        int
}

// Server is a running responder.
type Server struct {
	ln   net.Listener
	mu   sync.Mutex
	seen map[string]*Seen // keyed by the X-Fcgi-Id request header (HTTP_X_FCGI_ID)
	wg   sync.WaitGroup
}

// Listen starts a responder on network/address ("unix", path or "tcp", "127.0.0.1:0").
func Listen(network, address string) (*Server, error) {
	ln, err := net.Listen(network, address)
	if err != nil {
		return nil, err
	}
	s := &Server{ln: ln, seen: map[string]*Seen{}}
	go s.accept()
	return s, nil
}

func (s *Server) Addr() net.Addr { return s.ln.Addr() }
func (s *Server) Close()         { s.ln.Close() }

// Take returns and forgets what was received for id.
func (s *Server) Take(id string) *Seen {
	s.mu.Lock()
	defer s.mu.Unlock()
	x := s.seen[id]
	delete(s.seen, id)
	return x
}

func (s *Server) accept() {
	for {
		c, err := s.ln.Accept()
		if err != nil {
			return
		}
		go s.serve(c)
	}
}

type rec struct {
	typ     byte
	id      uint16
	content []byte
}

func readRecord(r io.Reader, sn *Seen) (*rec, error) {
	var h [8]byte
	if _, err := io.ReadFull(r, h[:]); err != nil {
		return nil, err
	}
	if h[0] != 1 {
		sn.ProtoErrors = append(sn.ProtoErrors, fmt.Sprintf("record version %d", h[0]))
	}
	cl := int(binary.BigEndian.Uint16(h[4:6]))
	pl := int(h[6])
	buf := make([]byte, cl+pl)
	if _, err := io.ReadFull(r, buf); err != nil {
		sn.ProtoErrors = append(sn.ProtoErrors, fmt.Sprintf("record type %d announces %d+%d bytes, stream ends early: %v", h[1], cl, pl, err))
		return nil, err
	}
	if h[7] != 0 {
		sn.ProtoErrors = append(sn.ProtoErrors, "reserved header byte not zero")
	}
	return &rec{typ: h[1], id: binary.BigEndian.Uint16(h[2:4]), content: buf[:cl]}, nil
}

// decodePairs decodes FastCGI name-value pairs strictly.
func decodePairs(b []byte, sn *Seen) {
	readLen := func() (int, bool) {
		if len(b) == 0 {
			return 0, false
		}
		if b[0]>>7 == 0 {
			n := int(b[0])
			b = b[1:]
			return n, true
		}
		if len(b) < 4 {
			return 0, false
		}
		n := int(binary.BigEndian.Uint32(b[:4]) & 0x7fffffff)
		b = b[4:]
		return n, true
	}
	for len(b) > 0 {
		nl, ok := readLen()
		if !ok {
			sn.ProtoErrors = append(sn.ProtoErrors, "truncated name length in PARAMS")
			return
		}
		vl, ok := readLen()
		if !ok {
			sn.ProtoErrors = append(sn.ProtoErrors, "truncated value length in PARAMS")
			return
		}
		if nl+vl > len(b) {
			sn.ProtoErrors = append(sn.ProtoErrors, fmt.Sprintf("PARAMS pair announces %d+%d bytes but only %d remain", nl, vl, len(b)))
			return
		}
		name, val := string(b[:nl]), string(b[nl:nl+vl])
		b = b[nl+vl:]
		if _, dup := sn.Params[name]; dup {
			sn.DupParams = append(sn.DupParams, name)
		}
		sn.Params[name] = val
		sn.ParamOrder = append(sn.ParamOrder, name)
	}
}

func writeRecord(w io.Writer, typ byte, id uint16, data []byte, padding int) error {
	if len(data) > 65535 {
		return fmt.Errorf("record too large")
	}
	if padding < 0 || padding > 255 {
		padding = 0
	}
	h := [8]byte{1, typ, byte(id >> 8), byte(id), byte(len(data) >> 8), byte(len(data)), byte(padding), 0}
	buf := append(append(h[:], data...), make([]byte, padding)...)
	_, err := w.Write(buf)
	return err
}

func (s *Server) serve(c net.Conn) {
	defer c.Close()
	sn := &Seen{Params: map[string]string{}}
	var params []byte
	var id uint16
	gotBegin, paramsDone, stdinDone := false, false, false
	for !stdinDone {
		r, err := readRecord(c, sn)
		if err != nil {
			sn.ProtoErrors = append(sn.ProtoErrors, "connection ended before the request was complete: "+err.Error())
			break
		}
		switch r.typ {
		case typeBegin:
			if gotBegin {
				sn.ProtoErrors = append(sn.ProtoErrors, "second BEGIN_REQUEST")
			}
			gotBegin = true
			id = r.id
			if len(r.content) != 8 {
				sn.ProtoErrors = append(sn.ProtoErrors, fmt.Sprintf("BEGIN_REQUEST body of %d bytes", len(r.content)))
			} else {
				sn.Role = int(binary.BigEndian.Uint16(r.content[:2]))
				sn.Flags = int(r.content[2])
			}
		case typeParams:
			if !gotBegin || paramsDone {
				sn.ProtoErrors = append(sn.ProtoErrors, "PARAMS record out of order")
			}
			sn.ParamRecords = append(sn.ParamRecords, len(r.content))
			if len(r.content) == 0 {
				paramsDone = true
				decodePairs(params, sn)
			} else {
				params = append(params, r.content...)
			}
		case typeStdin:
			if !paramsDone {
				sn.ProtoErrors = append(sn.ProtoErrors, "STDIN before the end of PARAMS")
			}
			sn.StdinRecords = append(sn.StdinRecords, len(r.content))
			if len(r.content) == 0 {
				stdinDone = true
			} else {
				sn.Stdin = append(sn.Stdin, r.content...)
			}
		default:
			sn.ProtoErrors = append(sn.ProtoErrors, fmt.Sprintf("unexpected record type %d", r.typ))
		}
		if r.id != id && gotBegin {
			sn.ProtoErrors = append(sn.ProtoErrors, fmt.Sprintf("record with request id %d, BEGIN had %d", r.id, id))
		}
	}
	key := sn.Params["HTTP_X_FCGI_ID"]
	s.mu.Lock()
	s.seen[key] = sn
	s.mu.Unlock()

	var sc Script
	if raw, err := base64.StdEncoding.DecodeString(sn.Params["HTTP_X_FCGI_SCRIPT"]); err == nil {
		json.Unmarshal(raw, &sc)
	}
	if sn.Params["HTTP_X_FCGI_SCRIPT"] == "" {
		sc.Head = "Content-Type: text/plain\r\n\r\nfcgiref default reply\n"
	}
	for _, o := range sc.records() {
		t := byte(typeStdout)
		if o.stderr {
			t = typeStderr
		}
		if err := writeRecord(c, t, id, o.data, o.padding); err != nil {
			return
		}
	}
	if !sc.NoFinalEmpty {
		writeRecord(c, typeStdout, id, nil, 0)
	}
	for _, se := range sc.StderrLate {
		if err := writeRecord(c, typeStderr, id, []byte(se), 0); err != nil {
			return
		}
	}
	if !sc.NoEnd {
		var b [8]byte
		binary.BigEndian.PutUint32(b[:4], uint32(sc.AppStatus))
		writeRecord(c, typeEnd, id, b[:], 0)
	}
}

// EncodeScript renders a script for the X-Fcgi-Script request header.
func EncodeScript(sc *Script) string {
	b, _ := json.Marshal(sc)
	return base64.StdEncoding.EncodeToString(b)
}
