// Package vt is the glue between a property's test package and the
// vcheck driver: per-case statistics, replay files, known findings and the
// process sandbox (temp cwd, cleared environment).
//
// Contract with the driver (environment):
//
//	VERIF_OUT     directory for stats.<shard>.json, hashes.<shard>.bin and replays
//	VERIF_SHARD   shard number (default 0)
//	VERIF_TIER    quick | thorough
//	VERIF_REPLAY  path of a replay file; tests then only replay it
//	VERIF_KF      path of known_findings.json
package vt

import (
	"encoding/binary"
	"encoding/json"
	"fmt"
	"hash/fnv"
	"os"
	"path/filepath"
	"sort"
	"strings"
	"sync"
	"sync/atomic"
	"testing"
	"time"
)

// Failer is what both *testing.T and *rapid.T offer.
type Failer interface {
	Fatalf(format string, args ...interface{})
	Logf(format string, args ...interface{})
	Skipf(format string, args ...interface{})
}

type subStats struct {
	Evaluations int            `json:"evaluations"`
	Nontrivial  int            `json:"nontrivial_evaluations"`
	Classes     map[string]int `json:"classes"`
	Excluded    map[string]int `json:"excluded_known,omitempty"`
	Skipped     map[string]int `json:"skipped,omitempty"`
	Samples     []interface{}  `json:"samples"`
	Exhaustive  bool           `json:"exhaustive,omitempty"`
	Extra       map[string]int `json:"extra,omitempty"`
}

// Stats is what one shard writes at exit.
type Stats struct {
	Shard  int                  `json:"shard"`
	Subs   map[string]*subStats `json:"subs"`
	Known  []string             `json:"known_findings_printed,omitempty"`
	Failed []string             `json:"failed,omitempty"`
}

var (
	mu      sync.Mutex
	stats   = Stats{Subs: map[string]*subStats{}}
	hashes  = map[uint64]struct{}{}
	outDir  = os.Getenv("VERIF_OUT")
	origWD  string
	WorkDir string // per-process scratch directory (cwd of the tests)
)

// Tier returns "quick" or "thorough".
func Tier() string {
	if os.Getenv("VERIF_TIER") == "thorough" {
		return "thorough"
	}
	return "quick"
}

// Thorough reports whether the thorough tier is running.
func Thorough() bool { return Tier() == "thorough" }

func shard() int {
	n := 0
	fmt.Sscanf(os.Getenv("VERIF_SHARD"), "%d", &n)
	return n
}

// Main is called from each package's TestMain.  keepEnv lists environment
// variables to preserve besides the fixed base set.
func Main(m *testing.M, keepEnv ...string) {
	origWD, _ = os.Getwd()
	if outDir == "" {
		outDir = filepath.Join(os.TempDir(), fmt.Sprintf("verif-out-%d", os.Getpid()))
	}
	os.MkdirAll(outDir, 0o755)
	outDir, _ = filepath.Abs(outDir)
	tmp, err := os.MkdirTemp("", "verif-wd-")
	if err != nil {
		fmt.Fprintln(os.Stderr, "vt: mkdtemp:", err)
		os.Exit(3)
	}
	WorkDir = tmp
	keep := map[string]bool{"PATH": true, "HOME": true, "TMPDIR": true, "GOTRACEBACK": true,
		"VERIF_OUT": true, "VERIF_SHARD": true, "VERIF_TIER": true, "VERIF_REPLAY": true, "VERIF_KF": true,
		"VERIF_SEED": true, "VERIF_N": true}
	for _, k := range keepEnv {
		keep[k] = true
	}
	for _, kv := range os.Environ() {
		k := kv
		if i := strings.IndexByte(kv, '='); i >= 0 {
			k = kv[:i]
		}
		if !keep[k] {
			os.Unsetenv(k)
		}
	}
	os.Setenv("CASKETPATH", filepath.Join(tmp, "casketpath"))
	os.Setenv("HOME", tmp)
	os.Chdir(tmp)
	code := m.Run()
	Flush()
	os.Chdir(origWD)
	os.RemoveAll(tmp)
	os.Exit(code)
}

// Flush writes the shard's statistics.  Main calls it; child-style tests
// that os.Exit themselves may call it too.
func Flush() {
	mu.Lock()
	defer mu.Unlock()
	stats.Shard = shard()
	b, _ := json.Marshal(&stats)
	os.WriteFile(filepath.Join(outDir, fmt.Sprintf("stats.%d.json", stats.Shard)), b, 0o644)
	hs := make([]uint64, 0, len(hashes))
	for h := range hashes {
		hs = append(hs, h)
	}
	sort.Slice(hs, func(i, j int) bool { return hs[i] < hs[j] })
	buf := make([]byte, 8*len(hs))
	for i, h := range hs {
		binary.LittleEndian.PutUint64(buf[8*i:], h)
	}
	os.WriteFile(filepath.Join(outDir, fmt.Sprintf("hashes.%d.bin", stats.Shard)), buf, 0o644)
}

func sub(name string) *subStats {
	s := stats.Subs[name]
	if s == nil {
		s = &subStats{Classes: map[string]int{}}
		stats.Subs[name] = s
	}
	return s
}

// Hash returns the FNV-64 of the JSON encoding of v (prefixed by the sub name).
func Hash(subName string, v interface{}) uint64 {
	h := fnv.New64a()
	h.Write([]byte(subName))
	h.Write([]byte{0})
	b, err := json.Marshal(v)
	if err != nil {
		b = []byte(fmt.Sprintf("%#v", v))
	}
	h.Write(b)
	return h.Sum64()
}

const maxSamples = 6

// Record notes one evaluated case.  c is the case (JSON-able); nontrivial
// is the property's stated rule evaluated on it; classes label it.
func Record(subName string, c interface{}, nontrivial bool, classes ...string) {
	var h uint64
	if nontrivial {
		h = Hash(subName, c)
	}
	mu.Lock()
	defer mu.Unlock()
	s := sub(subName)
	s.Evaluations++
	for _, cl := range classes {
		s.Classes[cl]++
	}
	if nontrivial {
		s.Nontrivial++
		if _, seen := hashes[h]; !seen {
			hashes[h] = struct{}{}
			// keep a few samples, spread out: the 1st, 2nd, 4th, 8th... distinct non-trivial case
			n := len(hashes)
			if len(s.Samples) < maxSamples && n&(n-1) == 0 {
				s.Samples = append(s.Samples, clip(c))
			}
		}
	} else if len(s.Samples) == 0 && s.Evaluations == 1 {
		// make sure there is at least one sample even if nothing is non-trivial
		s.Samples = append(s.Samples, clip(c))
	}
}

// RecordHash is Record for callers that count many tiny cases and supply
// their own hash and (optional) sample.
func RecordHash(subName string, h uint64, nontrivial bool, sample func() interface{}, classes ...string) {
	mu.Lock()
	defer mu.Unlock()
	s := sub(subName)
	s.Evaluations++
	for _, cl := range classes {
		s.Classes[cl]++
	}
	if nontrivial {
		s.Nontrivial++
		if _, seen := hashes[h]; !seen {
			hashes[h] = struct{}{}
			n := len(hashes)
			if sample != nil && len(s.Samples) < maxSamples && n&(n-1) == 0 {
				s.Samples = append(s.Samples, clip(sample()))
			}
		}
	}
}

func clip(c interface{}) interface{} {
	b, err := json.Marshal(c)
	if err != nil {
		return fmt.Sprintf("%+v", c)
	}
	if len(b) > 3000 {
		return string(b[:3000]) + "...(clipped)"
	}
	var v interface{}
	json.Unmarshal(b, &v)
	return v
}

// Class counts a label without counting an evaluation.
func Class(subName string, classes ...string) {
	mu.Lock()
	defer mu.Unlock()
	s := sub(subName)
	for _, cl := range classes {
		s.Classes[cl]++
	}
}

// Extra adds to a named counter in the evidence.
func Extra(subName, key string, n int) {
	mu.Lock()
	defer mu.Unlock()
	s := sub(subName)
	if s.Extra == nil {
		s.Extra = map[string]int{}
	}
	s.Extra[key] += n
}

// Exhaustive marks a sub-check as having enumerated its space completely.
func Exhaustive(subName string) {
	mu.Lock()
	defer mu.Unlock()
	sub(subName).Exhaustive = true
}

// Skip counts a generated case that was discarded (with the reason).
func Skip(subName, reason string) {
	mu.Lock()
	defer mu.Unlock()
	s := sub(subName)
	if s.Skipped == nil {
		s.Skipped = map[string]int{}
	}
	s.Skipped[reason]++
}

// Excluded counts a generated case that matches an open known finding.
func Excluded(subName, key string) {
	mu.Lock()
	defer mu.Unlock()
	s := sub(subName)
	if s.Excluded == nil {
		s.Excluded = map[string]int{}
	}
	s.Excluded[key]++
}

// replay file format
type ReplayFile struct {
	Property string          `json:"property"`
	Sub      string          `json:"sub"`
	Error    string          `json:"error,omitempty"`
	Case     json.RawMessage `json:"case"`
}

// Property id, set by each package (e.g. "C10").
var Property = "C??"

// WriteReplay stores the failing case; the last call for a sub wins, which
// under rapid's shrinking is the minimal case.
func WriteReplay(subName string, c interface{}, msg string) string {
	b, err := json.Marshal(c)
	if err != nil {
		b, _ = json.Marshal(fmt.Sprintf("%+v", c))
	}
	rf := ReplayFile{Property: Property, Sub: subName, Error: msg, Case: b}
	out, _ := json.MarshalIndent(&rf, "", " ")
	dir := filepath.Join(outDir, "replays")
	os.MkdirAll(dir, 0o755)
	p := filepath.Join(dir, fmt.Sprintf("%s.%d.json", subName, shard()))
	os.WriteFile(p, out, 0o644)
	mu.Lock()
	found := false
	for _, f := range stats.Failed {
		if f == p {
			found = true
		}
	}
	if !found {
		stats.Failed = append(stats.Failed, p)
	}
	mu.Unlock()
	return p
}

// Fail records the failing case as a replay file and fails the test.
func Fail(t Failer, subName string, c interface{}, format string, args ...interface{}) {
	msg := fmt.Sprintf(format, args...)
	p := WriteReplay(subName, c, msg)
	t.Fatalf("%s/%s: %s\nreplay: %s", Property, subName, msg, p)
}

// ReplayPath returns the replay file to run, if the driver asked for one.
func ReplayPath() string { return os.Getenv("VERIF_REPLAY") }

// LoadReplay reads a replay file.
func LoadReplay(path string) (*ReplayFile, error) {
	b, err := os.ReadFile(path)
	if err != nil {
		return nil, err
	}
	var rf ReplayFile
	if err := json.Unmarshal(b, &rf); err != nil {
		return nil, err
	}
	return &rf, nil
}

// --- known findings -------------------------------------------------------

type Finding struct {
	Property  string `json:"property"`
	Key       string `json:"key"`
	Status    string `json:"status"` // open | fixed
	Signature string `json:"signature"`
	WhatFails string `json:"what_fails"`
	Commit    string `json:"commit,omitempty"`
	Replay    string `json:"replay,omitempty"`
}

var (
	kfOnce sync.Once
	kfAll  []Finding
)

func loadKF() {
	p := os.Getenv("VERIF_KF")
	if p == "" {
		p = "/verif/known_findings.json"
	}
	b, err := os.ReadFile(p)
	if err != nil {
		return
	}
	var doc struct {
		Findings []Finding `json:"findings"`
	}
	if json.Unmarshal(b, &doc) == nil {
		kfAll = doc.Findings
	}
}

// Open reports whether the finding with this key is listed as open for the
// current property.  Generators use it to exclude matching cases; when the
// finding is fixed (or absent) nothing is excluded.
func Open(key string) bool {
	kfOnce.Do(loadKF)
	for _, f := range kfAll {
		if f.Property == Property && f.Key == key && f.Status == "open" {
			return true
		}
	}
	return false
}

// FindingByKey returns the listed finding.
func FindingByKey(key string) *Finding {
	kfOnce.Do(loadKF)
	for i, f := range kfAll {
		if f.Property == Property && f.Key == key {
			return &kfAll[i]
		}
	}
	return nil
}

// PrintKnown prints the KNOWN-FINDING line once per process for an open
// finding whose minimal reproduction still fails.
func PrintKnown(key string) {
	f := FindingByKey(key)
	what := key
	if f != nil {
		what = f.Key + ": " + f.WhatFails
	}
	mu.Lock()
	defer mu.Unlock()
	for _, k := range stats.Known {
		if k == key {
			return
		}
	}
	stats.Known = append(stats.Known, key)
	fmt.Printf("KNOWN-FINDING: property=%s %s\n", Property, what)
}

// --- replay / corpus plumbing shared by all packages -----------------------

// IsHarnessErr reports errors that are harness trouble, not verdicts.
func IsHarnessErr(err error) bool {
	return err != nil && strings.HasPrefix(err.Error(), "HARNESS")
}

// Check is the common tail of a property function: harness errors fail the
// test without a replay file (exit 2 in the driver), property violations
// write the replay file and fail.
func Check(t Failer, subName string, c interface{}, err error) {
	if err == nil {
		return
	}
	if IsHarnessErr(err) {
		// not a verdict: discard the case (rapid treats a skipped case as
		// invalid, so shrinking cannot end on harness trouble); persistent
		// harness trouble surfaces as rapid's "too many invalid" = exit 2
		Skip(subName, "harness-error")
		fmt.Fprintf(os.Stderr, "%s/%s harness trouble (case discarded): %v\n", Property, subName, err)
		t.Skipf("%v", err)
	}
	Fail(t, subName, c, "%v", err)
}

// RunReplay implements TestReplay: runs the file named by VERIF_REPLAY.
func RunReplay(t *testing.T, fn func(rf *ReplayFile) error) {
	p := ReplayPath()
	if p == "" {
		t.Skip("no replay requested")
	}
	rf, err := LoadReplay(p)
	if err != nil {
		t.Fatalf("HARNESS: %v", err)
	}
	if err := fn(rf); err != nil {
		if IsHarnessErr(err) {
			// harness trouble is not a verdict: tell the driver
			os.WriteFile(filepath.Join(outDir, "replay.inconclusive"), []byte(err.Error()), 0o644)
			t.Skipf("%s/%s: %v", Property, rf.Sub, err)
		}
		t.Fatalf("%s/%s: %v", Property, rf.Sub, err)
	}
}

// RunCorpus implements TestCorpus: replays every committed regression case
// in $VERIF_CORPUS; a failing one is reported as a violation whose replay
// file is a copy of the corpus file.
func RunCorpus(t *testing.T, fn func(rf *ReplayFile) error) {
	if ReplayPath() != "" {
		t.Skip("replay mode")
	}
	files, _ := filepath.Glob(filepath.Join(os.Getenv("VERIF_CORPUS"), "*.json"))
	sort.Strings(files)
	for _, f := range files {
		rf, err := LoadReplay(f)
		if err != nil {
			t.Fatalf("HARNESS: corpus file %s: %v", f, err)
		}
		err = fn(rf)
		Class("corpus", "replayed")
		if err == nil {
			continue
		}
		if IsHarnessErr(err) {
			t.Fatalf("corpus %s: %v", f, err)
		}
		b, _ := os.ReadFile(f)
		dir := filepath.Join(outDir, "replays")
		os.MkdirAll(dir, 0o755)
		dst := filepath.Join(dir, "corpus-"+filepath.Base(f))
		os.WriteFile(dst, b, 0o644)
		t.Errorf("%s corpus case %s fails: %v\nreplay: %s", Property, filepath.Base(f), err, dst)
	}
}

// Decode unmarshals a replay case.
func Decode(rf *ReplayFile, v interface{}) error {
	if err := json.Unmarshal(rf.Case, v); err != nil {
		return fmt.Errorf("HARNESS: bad replay case: %v", err)
	}
	return nil
}

// Current records the case about to run, so that the driver can turn a
// crash of the whole process (a panic in a goroutine casket started, a
// fatal out-of-memory) into a replayable violation for sub-checks whose
// configuration says a crash is a verdict.
func Current(subName string, c interface{}) {
	b, err := json.Marshal(c)
	if err != nil {
		return
	}
	rf := ReplayFile{Property: Property, Sub: subName, Error: "the test process crashed while running this case", Case: b}
	out, _ := json.Marshal(&rf)
	os.WriteFile(filepath.Join(outDir, fmt.Sprintf("current.%d.json", shard())), out, 0o644)
}

// ---------------------------------------------------------------------------
// starvation detector: a goroutine that ticks every 5 ms. When the whole
// process is short of CPU (an overloaded machine) ticks go missing; when only
// the code under test is stuck they do not. Watchdogs use it to tell a hang
// from a slow machine.

var (
	beatOnce  sync.Once
	beatCount int64
)

func startHeartbeat() {
	beatOnce.Do(func() {
		go func() {
			for {
				time.Sleep(5 * time.Millisecond)
				atomic.AddInt64(&beatCount, 1)
			}
		}()
	})
}

// Beats returns the heartbeat counter (start it with the first call).
func Beats() int64 {
	startHeartbeat()
	return atomic.LoadInt64(&beatCount)
}

// Starved reports whether fewer than half of the heartbeats expected in the
// elapsed time since the counter read `since` (taken at `at`) have happened.
func Starved(since int64, at time.Time) bool {
	expected := int64(time.Since(at) / (5 * time.Millisecond))
	return expected > 20 && (Beats()-since)*2 < expected
}
