// Package child runs a script of configuration loads in a fresh casket
// process (the test binary re-executed with VERIF_CHILD set) and reports
// what could be observed after every step: the result and latency of the
// attempt, the process's listening sockets, the registered event hooks, the
// number of live instances and the answers of the running sites.
package child

import (
	"bufio"
	"encoding/json"
	"fmt"
	"io"
	"log"
	"net"
	"net/http"
	"os"
	"os/exec"
	"path/filepath"
	"runtime"
	"sort"
	"strconv"
	"strings"
	"sync/atomic"
	"syscall"
	"time"

	"github.com/tmpim/casket"
	_ "github.com/tmpim/casket/caskethttp"
	"github.com/tmpim/casket/caskethttp/httpserver"
)

// Step is one action of the script.
type Step struct {
	Op   string `json:"op"`             // validate | load | reload (SIGUSR1) | restart (Instance.Restart) | occupy | release | writefile | sigterm | sigint | wait
	Text string `json:"text"`           // Casketfile text
	Port string `json:"port,omitempty"` // for occupy/release
	Path string `json:"path,omitempty"` // for writefile: file name inside Dir, written with Text
	N    int    `json:"n,omitempty"`    // repeat count for signals
	Tag  string `json:"tag,omitempty"`  // echoed in the observation
}

// Script is what the parent hands to the child.
type Script struct {
	Dir        string   `json:"dir"` // working directory (config file, logs, htpasswd ...)
	Steps      []Step   `json:"steps"`
	Probes     []string `json:"probes"`                // "port|host" pairs to GET / after every step
	ServerType string   `json:"server_type,omitempty"` // default "http"
	QUIC       bool     `json:"quic,omitempty"`        // run with the -quic flag on (every HTTP server also binds its UDP port)
}

// Obs is what the child observed after a step.
type Obs struct {
	Op        string            `json:"op"`
	Tag       string            `json:"tag,omitempty"`
	OK        bool              `json:"ok"`
	Err       string            `json:"err,omitempty"`
	Hung      bool              `json:"hung,omitempty"`
	Blocked   string            `json:"blocked,omitempty"` // goroutine dump excerpt when hung
	Millis    int64             `json:"millis"`
	Listening []string          `json:"listening"` // ports this process listens on
	Hooks     int               `json:"hooks"`
	Instances int               `json:"instances"`
	Answers   map[string]string `json:"answers"` // probe -> "status body" or "ERR"
	Events    []string          `json:"events,omitempty"`
	Files     []string          `json:"files,omitempty"` // after a hammer step: the log files in Dir
	ExtraFDs  []string          `json:"extra_fds,omitempty"` // listening sockets held by more than one descriptor
}

// Result is the child's report.
type Result struct {
	Obs      []Obs    `json:"obs"`
	Exited   bool     `json:"exited"`
	ExitCode int      `json:"exit_code"`
	Log      string   `json:"log,omitempty"`
	Events   []string `json:"events,omitempty"` // lifecycle events recorded through EventSink
}

// EventSink lets test plugins registered in the child record lifecycle events;
// every event is appended synchronously to events.log in the script directory
// so that it survives os.Exit.
var eventFile *os.File

func Event(s string) {
	if eventFile != nil {
		fmt.Fprintln(eventFile, s)
	}
}

// Hook is run in the child before the script (to register test plugins).
var Hook func()

// MaybeRun turns the process into a child if VERIF_CHILD names a script.
func MaybeRun() {
	path := os.Getenv("VERIF_CHILD")
	if path == "" {
		return
	}
	os.Exit(run(path))
}

// beatCount is advanced every 5 ms; missing beats mean the process is starved of CPU.
var beatCount int64

func init() {
	go func() {
		for {
			time.Sleep(5 * time.Millisecond)
			atomic.AddInt64(&beatCount, 1)
		}
	}()
}

// RemoveConf as the text of a reload step: remove the configuration file instead of rewriting it.
const RemoveConf = "@@remove-the-configuration-file@@"

type fileLoader struct{ path string }

func (l fileLoader) Load(serverType string) (casket.Input, error) {
	b, err := os.ReadFile(l.path)
	if err != nil {
		return nil, err
	}
	return casket.CasketfileInput{Contents: b, Filepath: l.path, ServerTypeName: serverType}, nil
}

// listening returns the ports of the LISTEN sockets owned by this process.
// extraFDs lists listening TCP sockets of this process that are held by more than one file descriptor
// ("port x n").  A running instance holds each of its listening sockets once; a duplicate that stays is
// a descriptor somebody took (a reload duplicates the running sockets) and did not give back.  Closing is
// partly asynchronous, so the census is repeated for up to 200 ms until it is clean.
func extraFDs(skip func(port string) bool) []string {
	var out []string
	for try := 0; try < 10; try++ {
		out = nil
		count := map[string]int{}
		fds, _ := os.ReadDir("/proc/self/fd")
		for _, fd := range fds {
			if l, err := os.Readlink("/proc/self/fd/" + fd.Name()); err == nil && strings.HasPrefix(l, "socket:[") {
				count[strings.TrimSuffix(strings.TrimPrefix(l, "socket:["), "]")]++
			}
		}
		for _, f := range []string{"/proc/self/net/tcp", "/proc/self/net/tcp6"} {
			b, err := os.ReadFile(f)
			if err != nil {
				continue
			}
			for i, line := range strings.Split(string(b), "\n") {
				fs := strings.Fields(line)
				if i == 0 || len(fs) < 10 || fs[3] != "0A" || count[fs[9]] < 2 {
					continue
				}
				if j := strings.LastIndex(fs[1], ":"); j >= 0 {
					if p, err := strconv.ParseInt(fs[1][j+1:], 16, 32); err == nil && !skip(strconv.Itoa(int(p))) {
						out = append(out, fmt.Sprintf("%d x %d", p, count[fs[9]]))
					}
				}
			}
		}
		if len(out) == 0 {
			return nil
		}
		time.Sleep(20 * time.Millisecond)
	}
	sort.Strings(out)
	return out
}

func listening() []string {
	inodes := map[string]bool{}
	fds, _ := os.ReadDir("/proc/self/fd")
	for _, fd := range fds {
		if l, err := os.Readlink("/proc/self/fd/" + fd.Name()); err == nil && strings.HasPrefix(l, "socket:[") {
			inodes[strings.TrimSuffix(strings.TrimPrefix(l, "socket:["), "]")] = true
		}
	}
	ports := map[string]bool{}
	for _, f := range []string{"/proc/self/net/tcp", "/proc/self/net/tcp6"} {
		b, err := os.ReadFile(f)
		if err != nil {
			continue
		}
		for i, line := range strings.Split(string(b), "\n") {
			fs := strings.Fields(line)
			if i == 0 || len(fs) < 10 || fs[3] != "0A" { // 0A = LISTEN
				continue
			}
			if !inodes[fs[9]] {
				continue
			}
			if j := strings.LastIndex(fs[1], ":"); j >= 0 {
				if p, err := strconv.ParseInt(fs[1][j+1:], 16, 32); err == nil {
					ports[strconv.Itoa(int(p))] = true
				}
			}
		}
	}
	// bound UDP sockets of this process (QUIC), reported as "udp:<port>"
	for _, f := range []string{"/proc/self/net/udp", "/proc/self/net/udp6"} {
		b, err := os.ReadFile(f)
		if err != nil {
			continue
		}
		for i, line := range strings.Split(string(b), "\n") {
			fs := strings.Fields(line)
			if i == 0 || len(fs) < 10 || !inodes[fs[9]] {
				continue
			}
			if j := strings.LastIndex(fs[1], ":"); j >= 0 {
				if p, err := strconv.ParseInt(fs[1][j+1:], 16, 32); err == nil && p != 0 {
					ports["udp:"+strconv.Itoa(int(p))] = true
				}
			}
		}
	}
	var out []string
	for p := range ports {
		out = append(out, p)
	}
	sort.Strings(out)
	return out
}

func answer(probe string) string {
	parts := strings.SplitN(probe, "|", 2)
	conn, err := net.DialTimeout("tcp", "127.0.0.1:"+parts[0], time.Second)
	if err != nil {
		return "ERR connect"
	}
	defer conn.Close()
	conn.SetDeadline(time.Now().Add(2 * time.Second))
	fmt.Fprintf(conn, "GET / HTTP/1.1\r\nHost: %s\r\nConnection: close\r\n\r\n", parts[1])
	resp, err := http.ReadResponse(bufio.NewReader(conn), &http.Request{Method: "GET"})
	if err != nil {
		return "ERR " + err.Error()
	}
	b, _ := io.ReadAll(io.LimitReader(resp.Body, 200))
	return fmt.Sprintf("%d %s %s", resp.StatusCode, resp.Header.Get("X-Marker"), strings.TrimSpace(string(b)))
}

func hammer(port string, n int) error {
	conn, err := net.DialTimeout("tcp", "127.0.0.1:"+port, time.Second)
	if err != nil {
		return err
	}
	defer conn.Close()
	br := bufio.NewReader(conn)
	pad := strings.Repeat("h", 4000)
	for i := 0; i < n; i++ {
		conn.SetDeadline(time.Now().Add(5 * time.Second))
		if _, err := fmt.Fprintf(conn, "GET /%s?i=%d HTTP/1.1\r\nHost: localhost\r\n\r\n", pad, i); err != nil {
			return err
		}
		resp, err := http.ReadResponse(br, &http.Request{Method: "GET"})
		if err != nil {
			return err
		}
		io.Copy(io.Discard, resp.Body)
		resp.Body.Close()
	}
	return nil
}

func run(scriptPath string) int {
	b, err := os.ReadFile(scriptPath)
	if err != nil {
		fmt.Fprintln(os.Stderr, "child:", err)
		return 3
	}
	var sc Script
	if err := json.Unmarshal(b, &sc); err != nil {
		fmt.Fprintln(os.Stderr, "child:", err)
		return 3
	}
	os.Chdir(sc.Dir)
	os.Setenv("CASKETPATH", filepath.Join(sc.Dir, "casketpath"))
	os.Setenv("HOME", sc.Dir)
	eventFile, _ = os.OpenFile(filepath.Join(sc.Dir, "events.log"), os.O_CREATE|os.O_WRONLY|os.O_APPEND|os.O_SYNC, 0o644)
	logFile, _ := os.OpenFile(filepath.Join(sc.Dir, "process.log"), os.O_CREATE|os.O_WRONLY|os.O_APPEND, 0o644)
	casket.Quiet = true
	log.SetOutput(logFile)
	log.SetFlags(0)
	if Hook != nil {
		Hook()
	}
	stype := sc.ServerType
	if stype == "" {
		stype = "http"
	}
	conf := filepath.Join(sc.Dir, "Casketfile")
	if sc.QUIC {
		httpserver.QUIC = true
	}
	casket.RegisterCasketfileLoader("verif", fileLoader{conf})
	casket.TrapSignals()
	// casket registers its handlers in goroutines it has just started; a signal
	// sent before they ran would get the default action
	time.Sleep(20 * time.Millisecond)

	res := &Result{}
	flush := func() {
		out, _ := json.Marshal(res)
		os.WriteFile(filepath.Join(sc.Dir, "result.json"), out, 0o644)
	}
	var inst *casket.Instance
	var firstInst *casket.Instance // the first instance this process started
	var loaded []*casket.Instance  // the handle each load step returned
	occupied := map[string]net.Listener{}
	occupiedUDP := map[string]net.PacketConn{}
	for _, st := range sc.Steps {
		o := Obs{Op: st.Op, Tag: st.Tag}
		t0 := time.Now()
		done := make(chan error, 1)
		go func(st Step) {
			switch st.Op {
			case "validate":
				done <- casket.ValidateAndExecuteDirectives(casket.CasketfileInput{Contents: []byte(st.Text), Filepath: conf, ServerTypeName: stype}, nil, true)
			case "load":
				os.WriteFile(conf, []byte(st.Text), 0o644)
				in, err := casket.LoadCasketfile(stype)
				if err != nil {
					done <- err
					return
				}
				i, err := casket.Start(in)
				if err == nil {
					inst = i
					loaded = append(loaded, i)
					if firstInst == nil {
						firstInst = i
					}
				}
				done <- err
			case "stop-load":
				// the application stops the handle its N-th load returned, whatever has become of that instance since
				if st.N < len(loaded) {
					done <- loaded[st.N].Stop()
				} else {
					done <- fmt.Errorf("no load %d", st.N)
				}
			case "stop-first-later":
				// N milliseconds from now, from another goroutine, stop the first instance this process started
				fi, delay := firstInst, time.Duration(st.N)*time.Millisecond
				go func() {
					time.Sleep(delay)
					if fi != nil {
						fi.Stop()
					}
				}()
				done <- nil
			case "restart":
				if inst == nil {
					done <- fmt.Errorf("no instance")
					return
				}
				ni, err := inst.Restart(casket.CasketfileInput{Contents: []byte(st.Text), Filepath: conf, ServerTypeName: stype})
				if err == nil {
					inst = ni
				}
				done <- err
			case "reload":
				if st.Text == RemoveConf {
					os.Remove(conf) // the operator's configuration file is gone when the signal arrives
				} else {
					os.WriteFile(conf, []byte(st.Text), 0o644)
				}
				off := logSize(logFile)
				syscall.Kill(os.Getpid(), syscall.SIGUSR1)
				// completion is visible in the process log
				deadline := time.Now().Add(9 * time.Second)
				for time.Now().Before(deadline) {
					l := logSince(logFile, off)
					if strings.Contains(l, "Reloading complete") {
						if is := casket.Instances(); len(is) > 0 {
							inst = is[len(is)-1]
						}
						done <- nil
						return
					}
					if strings.Contains(l, "[ERROR] SIGUSR1") {
						done <- fmt.Errorf("reload failed: %s", lastLine(l, "[ERROR] SIGUSR1"))
						return
					}
					time.Sleep(2 * time.Millisecond)
				}
				if !strings.Contains(logSince(logFile, off), "SIGUSR1: Reloading") {
					// the handler never saw the signal (e.g. it was not yet registered): no verdict
					done <- fmt.Errorf("SIGNAL-NOT-HANDLED")
					return
				}
				done <- fmt.Errorf("HUNG-RELOAD")
			case "hammer":
				// N requests with 4 kB URIs to the site on Port: more than a megabyte of access log
				done <- hammer(st.Port, st.N)
			case "writefile":
				done <- os.WriteFile(filepath.Join(sc.Dir, filepath.Base(st.Path)), []byte(st.Text), 0o644)
			case "occupy-udp":
				pc, err := net.ListenPacket("udp", ":"+st.Port)
				if err == nil {
					occupiedUDP[st.Port] = pc
				}
				done <- err
			case "occupy":
				l, err := net.Listen("tcp", "127.0.0.1:"+st.Port)
				if err == nil {
					occupied[st.Port] = l
				}
				done <- err
			case "release":
				if l := occupied[st.Port]; l != nil {
					l.Close()
					delete(occupied, st.Port)
				}
				done <- nil
			case "signals":
				// a mixed burst, e.g. Text "sigint,sigterm"
				for _, name := range strings.Split(st.Text, ",") {
					sig := syscall.SIGTERM
					if name == "sigint" {
						sig = syscall.SIGINT
					}
					syscall.Kill(os.Getpid(), sig)
				}
				time.Sleep(5 * time.Second) // the process is expected to exit meanwhile
				done <- fmt.Errorf("still alive 5s after %s", st.Text)
			case "sigterm", "sigint":
				sig := syscall.SIGTERM
				if st.Op == "sigint" {
					sig = syscall.SIGINT
				}
				n := st.N
				if n < 1 {
					n = 1
				}
				for k := 0; k < n; k++ {
					syscall.Kill(os.Getpid(), sig)
				}
				time.Sleep(3 * time.Second) // the process is expected to exit meanwhile
				done <- fmt.Errorf("still alive 3s after %s", st.Op)
			case "stop":
				if inst != nil {
					inst.ShutdownCallbacks()
					err := inst.Stop()
					inst.Wait()
					done <- err
				} else {
					done <- nil
				}
			default:
				done <- fmt.Errorf("unknown op %q", st.Op)
			}
		}(st)
		beats, at := atomic.LoadInt64(&beatCount), time.Now()
		finish := func(err error) {
			o.OK = err == nil
			if err != nil {
				o.Err = err.Error()
				if o.Err == "HUNG-RELOAD" {
					o.Hung = true
				}
			}
		}
		select {
		case err := <-done:
			finish(err)
		case <-time.After(10 * time.Second):
			// fewer than half of the expected heartbeats: the whole process was short of CPU
			expected := int64(time.Since(at) / (5 * time.Millisecond))
			if (atomic.LoadInt64(&beatCount)-beats)*2 < expected {
				select {
				case err := <-done:
					finish(err)
					o.OK, o.Hung = false, false
					o.Err = "SLOW-MACHINE" // returned, but only on a long second chance: no verdict
				case <-time.After(60 * time.Second):
					o.Hung = true
				}
			} else {
				o.Hung = true
			}
		}
		if o.Hung {
			buf := make([]byte, 1<<16)
			o.Blocked = blockedSummary(string(buf[:runtime.Stack(buf, true)]))
		}
		o.Millis = time.Since(t0).Milliseconds()
		// listeners stopped by a successful reload close asynchronously: give them a moment
		time.Sleep(15 * time.Millisecond)
		o.Listening = listening()
		var mine []string
		for _, p := range o.Listening {
			if occupied[p] == nil && occupiedUDP[strings.TrimPrefix(p, "udp:")] == nil {
				mine = append(mine, p)
			} else if !strings.HasPrefix(p, "udp:") && occupied[p] == nil {
				mine = append(mine, p) // the TCP port with the same number as an occupied UDP port is ours
			}
		}
		o.Listening = mine
		o.ExtraFDs = extraFDs(func(p string) bool { return occupied[p] != nil })
		o.Hooks = len(casket.ListPlugins()["event_hooks"])
		o.Instances = len(casket.Instances())
		o.Answers = map[string]string{}
		for _, p := range sc.Probes {
			o.Answers[p] = answer(p)
		}
		if st.Op == "hammer" {
			ents, _ := os.ReadDir(sc.Dir)
			for _, e := range ents {
				if strings.HasPrefix(e.Name(), "access") {
					o.Files = append(o.Files, e.Name())
				}
			}
		}
		res.Obs = append(res.Obs, o)
		flush()
		if o.Hung {
			break
		}
	}
	if lb, err := os.ReadFile(filepath.Join(sc.Dir, "process.log")); err == nil && len(lb) < 1<<16 {
		res.Log = string(lb)
	}
	flush()
	return 0
}

func blockedSummary(dump string) string {
	var out []string
	for _, g := range strings.Split(dump, "\n\n") {
		if strings.Contains(g, "sync.(*Mutex).Lock") || strings.Contains(g, "semacquire") || strings.Contains(g, "chan receive") && strings.Contains(g, "casket") {
			lines := strings.Split(g, "\n")
			if len(lines) > 14 {
				lines = lines[:14]
			}
			out = append(out, strings.Join(lines, "\n"))
		}
	}
	s := strings.Join(out, "\n--\n")
	if len(s) > 6000 {
		s = s[:6000]
	}
	return s
}

func lastLine(s, needle string) string {
	ls := strings.Split(s, "\n")
	for i := len(ls) - 1; i >= 0; i-- {
		if strings.Contains(ls[i], needle) {
			return ls[i]
		}
	}
	return ""
}

func logSize(f *os.File) int64 {
	st, err := f.Stat()
	if err != nil {
		return 0
	}
	return st.Size()
}

func logSince(f *os.File, off int64) string {
	b, err := os.ReadFile(f.Name())
	if err != nil || int64(len(b)) < off {
		return ""
	}
	return string(b[off:])
}

// Spawn runs the script in a fresh child process (this test binary) and
// returns its report.  dir must exist; the script is written into it.
func Spawn(sc *Script, timeout time.Duration) (*Result, error) {
	b, _ := json.Marshal(sc)
	sp := filepath.Join(sc.Dir, "script.json")
	if err := os.WriteFile(sp, b, 0o644); err != nil {
		return nil, err
	}
	cmd := exec.Command(os.Args[0], "-test.run", "^$")
	cmd.Env = append(os.Environ(), "VERIF_CHILD="+sp)
	cmd.Dir = sc.Dir
	out, _ := os.Create(filepath.Join(sc.Dir, "child.out"))
	cmd.Stdout, cmd.Stderr = out, out
	if err := cmd.Start(); err != nil {
		return nil, err
	}
	done := make(chan error, 1)
	go func() { done <- cmd.Wait() }()
	var werr error
	select {
	case werr = <-done:
	case <-time.After(timeout):
		cmd.Process.Kill()
		<-done
		werr = fmt.Errorf("child timed out after %s", timeout)
	}
	out.Close()
	res := &Result{}
	rb, err := os.ReadFile(filepath.Join(sc.Dir, "result.json"))
	if err == nil {
		json.Unmarshal(rb, res)
	}
	res.Exited = true
	if ee, ok := werr.(*exec.ExitError); ok {
		res.ExitCode = ee.ExitCode()
	} else if werr != nil {
		res.ExitCode = -1
	}
	if lb, err := os.ReadFile(filepath.Join(sc.Dir, "process.log")); err == nil && res.Log == "" {
		res.Log = tailStr(string(lb), 1<<16)
	}
	if eb, err := os.ReadFile(filepath.Join(sc.Dir, "events.log")); err == nil {
		for _, l := range strings.Split(strings.TrimSpace(string(eb)), "\n") {
			if l != "" {
				res.Events = append(res.Events, l)
			}
		}
	}
	if err != nil && len(res.Obs) == 0 {
		ob, _ := os.ReadFile(filepath.Join(sc.Dir, "child.out"))
		return res, fmt.Errorf("child produced no report (%v): %s", werr, tailStr(string(ob), 1500))
	}
	return res, nil
}

func tailStr(s string, n int) string {
	if len(s) > n {
		return s[len(s)-n:]
	}
	return s
}
