// Package probe registers a test-only directive "zz_probe" through casket's
// public plugin API.  It sits innermost (just outside the static file
// server) and behaves per request as told by a script carried in the
// X-Probe request header: read the body with given buffer sizes, write a
// status/headers/chunks, return a (status, error) pair, or panic.
package probe

import (
	"bytes"
	"context"
	"encoding/base64"
	"encoding/json"
	"errors"
	"io"
	"net/http"
	"os"
	"sync"
	"time"

	"github.com/tmpim/casket"
	"github.com/tmpim/casket/caskethttp/httpserver"
)

type Script struct {
	ID         string              `json:"id"`
	ReadSizes  []int               `json:"read_sizes,omitempty"`
	Status     int                 `json:"status,omitempty"`
	Header     map[string][]string `json:"header,omitempty"`
	Chunks     [][]byte            `json:"chunks,omitempty"`
	Flush      []bool              `json:"flush,omitempty"`
	NoWrite    bool                `json:"no_write,omitempty"`
	Ret        int                 `json:"ret"`
	Err        string              `json:"err,omitempty"`
	Panic      string              `json:"panic,omitempty"`       // "", "before", "after"
	FlushFirst bool                `json:"flush_first,omitempty"` // call Flush before setting any header or writing
	PanicWith  string              `json:"panic_with,omitempty"`  // "" (a string), "error", "runtime", "abort" (http.ErrAbortHandler)
	EchoBody   bool                `json:"echo_body,omitempty"`
	PauseMs    int                 `json:"pause_ms,omitempty"` // sleep after every chunk (keeps the handler in flight)
	Copy       bool                `json:"copy,omitempty"`     // send every chunk with io.Copy from a plain reader, the way a file is sent
	Early      int                 `json:"early,omitempty"`    // an informational status (103) sent before the final one
}

type Result struct {
	Seen      bool
	Method    string
	Path      string
	RawQuery  string
	Header    http.Header
	Host      string
	Read      []byte
	ReadErr   string
	ReadCalls int
	OverRead  bool // a Read returned more bytes than the buffer (never)
	AfterErr  int  // bytes returned by reads after the first error
}

var (
	mu      sync.Mutex
	results = map[string]*Result{}
	once    sync.Once
)

// Take returns and forgets the result recorded for id.
func Take(id string) *Result {
	mu.Lock()
	defer mu.Unlock()
	r := results[id]
	delete(results, id)
	return r
}

// Encode renders the script for the X-Probe header.
func Encode(s *Script) string {
	b, _ := json.Marshal(s)
	return base64.StdEncoding.EncodeToString(b)
}

// Register makes the directive known to casket (once per process).
func Register() {
	once.Do(func() {
		httpserver.RegisterDevDirective("zz_probe", "")
		casket.RegisterPlugin("zz_probe", casket.Plugin{ServerType: "http", Action: setup})
	})
}

func setup(c *casket.Controller) error {
	for c.Next() {
		c.RemainingArgs()
	}
	httpserver.GetConfig(c).AddMiddleware(func(next httpserver.Handler) httpserver.Handler {
		return handler{next: next}
	})
	return nil
}

type handler struct{ next httpserver.Handler }

func (h handler) ServeHTTP(w http.ResponseWriter, r *http.Request) (int, error) {
	enc := r.Header.Get("X-Probe")
	if enc == "" {
		return h.next.ServeHTTP(w, r)
	}
	raw, err := base64.StdEncoding.DecodeString(enc)
	if err != nil {
		return h.next.ServeHTTP(w, r)
	}
	var s Script
	if json.Unmarshal(raw, &s) != nil {
		return h.next.ServeHTTP(w, r)
	}
	res := &Result{Seen: true, Method: r.Method, Path: r.URL.Path, RawQuery: r.URL.RawQuery, Header: r.Header.Clone(), Host: r.Host}
	if len(s.ReadSizes) > 0 && r.Body != nil {
		i := 0
		for {
			n := s.ReadSizes[i%len(s.ReadSizes)]
			i++
			if n <= 0 {
				n = 1
			}
			buf := make([]byte, n)
			k, err := r.Body.Read(buf)
			res.ReadCalls++
			if k > n {
				res.OverRead = true
				k = n
			}
			if res.ReadErr != "" {
				res.AfterErr += k
			} else {
				res.Read = append(res.Read, buf[:k]...)
			}
			if err != nil {
				if err != io.EOF && res.ReadErr == "" {
					res.ReadErr = err.Error()
					// read twice more: the error must be sticky and yield no more data
					if res.ReadCalls < 1<<20 && i < 1<<20 {
						k2, _ := r.Body.Read(make([]byte, 64))
						res.AfterErr += k2
					}
				}
				if err == io.EOF && res.ReadErr == "" {
					res.ReadErr = "EOF"
				}
				break
			}
			if res.ReadCalls > 1<<22 {
				res.ReadErr = "probe: too many reads"
				break
			}
		}
	}
	mu.Lock()
	results[s.ID] = res
	mu.Unlock()

	if s.Panic == "before" {
		panicWith(s.PanicWith, "zz_probe: scripted panic before writing")
	}
	if !s.NoWrite {
		if s.Early >= 100 && s.Early < 200 && s.Early != 101 && !s.FlushFirst {
			// an informational response (Early Hints) before the real one: not the response header
			w.Header().Set("Link", "</style.css>; rel=preload")
			w.WriteHeader(s.Early)
			w.Header().Del("Link")
		}
		if s.FlushFirst {
			if f, ok := w.(http.Flusher); ok {
				f.Flush()
			}
		}
		for k, vv := range s.Header {
			for _, v := range vv {
				w.Header().Add(k, v)
			}
		}
		if s.Status != 0 {
			w.WriteHeader(s.Status)
		}
		if s.EchoBody {
			w.Write(res.Read)
		}
		for i, ch := range s.Chunks {
			if s.Copy {
				// a reader without WriteTo, so that io.Copy takes the writer's ReadFrom if it has one
				io.Copy(w, struct{ io.Reader }{bytes.NewReader(ch)})
			} else {
				w.Write(ch)
			}
			if i < len(s.Flush) && s.Flush[i] {
				if f, ok := w.(http.Flusher); ok {
					f.Flush()
				}
			}
			if s.PauseMs > 0 {
				time.Sleep(time.Duration(s.PauseMs) * time.Millisecond)
			}
		}
	}
	if s.Panic == "after" {
		panicWith(s.PanicWith, "zz_probe: scripted panic after writing")
	}
	if s.Err != "" {
		return s.Ret, scriptedError(s.Err)
	}
	return s.Ret, nil
}

// scriptedError maps the names of well-known sentinel errors to the sentinels themselves (a handler
// may hand any error value up the chain, those included); anything else becomes a plain error.
func scriptedError(name string) error {
	switch name {
	case "context.Canceled":
		return context.Canceled
	case "context.DeadlineExceeded":
		return context.DeadlineExceeded
	case "io.EOF":
		return io.EOF
	case "io.ErrUnexpectedEOF":
		return io.ErrUnexpectedEOF
	case "http.ErrAbortHandler":
		return http.ErrAbortHandler
	case "os.ErrNotExist":
		return os.ErrNotExist
	case "os.ErrPermission":
		return os.ErrPermission
	}
	return errors.New(name)
}

// panicWith panics with a value of the requested kind.
func panicWith(kind, msg string) {
	switch kind {
	case "error":
		panic(errors.New(msg))
	case "runtime":
		var m map[string]int
		m[msg] = 1 // assignment to entry in nil map: a runtime.Error
	case "abort":
		panic(http.ErrAbortHandler)
	}
	panic(msg)
}
