package c04

import (
	"bytes"
	"encoding/base64"
	"encoding/json"
	"fmt"
	"io"
	"net"
	"net/http"
	"net/http/httptest"
	"net/url"
	"os"
	"path"
	"sort"
	"strings"
	"sync"
	"sync/atomic"
	"testing"

	"pgregory.net/rapid"

	"verif/harness/internal/srv"
	"verif/harness/internal/vt"
)

func TestMain(m *testing.M) {
	vt.Property = "C04"
	vt.Main(m)
}

// ---------------------------------------------------------------------------
// recording backend

type BackendScript struct {
	Status      int         `json:"status"`
	Header      [][2]string `json:"header"`
	Chunks      [][]byte    `json:"chunks"`
	Flush       []bool      `json:"flush"`
	Announced   [][2]string `json:"announced,omitempty"`   // trailers declared in the Trailer header
	Unannounced [][2]string `json:"unannounced,omitempty"` // trailers sent with the http.TrailerPrefix mechanism
}

type seen struct {
	Method   string
	Path     string
	EscPath  string
	RawQuery string
	Host     string
	Header   http.Header
	Body     []byte
	BodyErr  string
	Attempt  int
	WriteErr string // first error of the backend's own response writes
	Wrote    int
}

var (
	recMu sync.Mutex
	rec   = map[string][]*seen{}
)

func backendHandler(w http.ResponseWriter, r *http.Request) {
	id := r.Header.Get("X-Case-Id")
	body, err := io.ReadAll(r.Body)
	s := &seen{Method: r.Method, Path: r.URL.Path, EscPath: r.URL.EscapedPath(), RawQuery: r.URL.RawQuery, Host: r.Host, Header: r.Header.Clone(), Body: body}
	if err != nil {
		s.BodyErr = err.Error()
	}
	recMu.Lock()
	rec[id] = append(rec[id], s)
	s.Attempt = len(rec[id])
	recMu.Unlock()
	var sc BackendScript
	if raw, err := base64.StdEncoding.DecodeString(r.Header.Get("X-Backend-Script")); err == nil {
		json.Unmarshal(raw, &sc)
	}
	if sc.Status == 0 {
		sc.Status = 200
	}
	for _, kv := range sc.Header {
		w.Header().Add(kv[0], kv[1])
	}
	if len(sc.Announced) > 0 {
		var names []string
		for _, kv := range sc.Announced {
			names = append(names, kv[0])
		}
		w.Header().Set("Trailer", strings.Join(names, ", "))
	}
	w.WriteHeader(sc.Status)
	if len(sc.Announced)+len(sc.Unannounced) > 0 {
		// trailers need chunked framing: make sure net/http does not pick Content-Length
		if f, ok := w.(http.Flusher); ok {
			f.Flush()
		}
	}
	for i, ch := range sc.Chunks {
		n, werr := w.Write(ch)
		recMu.Lock()
		s.Wrote += n
		if werr != nil && s.WriteErr == "" {
			s.WriteErr = werr.Error()
		}
		recMu.Unlock()
		if i < len(sc.Flush) && sc.Flush[i] {
			if f, ok := w.(http.Flusher); ok {
				f.Flush()
			}
		}
	}
	seenTr := map[string]bool{}
	for _, kv := range sc.Announced {
		if !seenTr[kv[0]] {
			w.Header().Del(kv[0]) // the trailer value replaces a header value of the same name
			seenTr[kv[0]] = true
		}
		w.Header().Add(kv[0], kv[1])
	}
	for _, kv := range sc.Unannounced {
		w.Header().Add(http.TrailerPrefix+kv[0], kv[1])
	}
}

var (
	backOnce sync.Once
	backend  *httptest.Server
	backend2 *httptest.Server // the same handler behind TLS, speaking HTTP/2
	deadAddr string
)

func setupBackend() {
	backOnce.Do(func() {
		backend = httptest.NewServer(http.HandlerFunc(backendHandler))
		backend2 = httptest.NewUnstartedServer(http.HandlerFunc(backendHandler))
		backend2.EnableHTTP2 = true
		backend2.StartTLS()
		// a "dead" backend that stays bound (so the port cannot be reused by
		// anything else) and drops every connection at once
		l, _ := net.Listen("tcp", "127.0.0.1:0")
		deadAddr = l.Addr().String()
		go func() {
			for {
				c, err := l.Accept()
				if err != nil {
					return
				}
				c.Close()
			}
		}()
	})
}

// ---------------------------------------------------------------------------

type Rule struct {
	Dir   string `json:"dir"` // upstream | downstream
	Op    string `json:"op"`  // set | add | del | regex
	Name  string `json:"name"`
	Value string `json:"value"`
	Re    string `json:"re,omitempty"`
}

type Upstream struct {
	From        string `json:"from"`
	Base        string `json:"base"`    // "" or "/base"
	Without     string `json:"without"` // "" or "/api"
	Transparent bool   `json:"transparent"`
	Retry       bool   `json:"retry"` // dead host first, then the live one
	Rules       []Rule `json:"rules"`
	MaxConns    int    `json:"max_conns,omitempty"`       // pressure sub-check only
	TryMs       int    `json:"try_duration_ms,omitempty"` // pressure sub-check only: retries without a dead host
	// H2: the live backend is an https:// address (insecure_skip_verify) and negotiates HTTP/2
	H2 bool `json:"h2,omitempty"`
}

func (u Upstream) backendURL() string {
	if u.H2 {
		return backend2.URL
	}
	return backend.URL
}

type Req struct {
	Method  string        `json:"method"`
	Target  string        `json:"target"`
	Header  [][2]string   `json:"header"`
	BodyLen int           `json:"body_len"`
	Chunks  []int         `json:"chunks,omitempty"`
	Script  BackendScript `json:"script"`
}

type Case struct {
	Up   Upstream `json:"up"`
	Reqs []Req    `json:"reqs"`
	// V6: the client reaches the proxy over the IPv6 loopback address
	V6 bool `json:"v6,omitempty"`
}

func (c *Case) clientIP() string {
	if c.V6 {
		return "::1"
	}
	return "127.0.0.1"
}

func casketfile(u Upstream) string {
	setupBackend()
	var sb strings.Builder
	sb.WriteString("http://proxy.test:0 {\n")
	fmt.Fprintf(&sb, "\tproxy %s", u.From)
	if u.Retry {
		fmt.Fprintf(&sb, " http://%s%s", deadAddr, u.Base)
	}
	fmt.Fprintf(&sb, " %s%s {\n", u.backendURL(), u.Base)
	if u.H2 {
		sb.WriteString("\t\tinsecure_skip_verify\n")
	}
	if u.Retry {
		sb.WriteString("\t\tpolicy first\n\t\ttry_duration 2s\n\t\ttry_interval 5ms\n\t\tfail_timeout 30s\n")
	}
	if u.MaxConns > 0 {
		fmt.Fprintf(&sb, "\t\tmax_conns %d\n", u.MaxConns)
	}
	if u.TryMs > 0 && !u.Retry {
		fmt.Fprintf(&sb, "\t\ttry_duration %dms\n\t\ttry_interval 2ms\n", u.TryMs)
	}
	if u.Without != "" {
		fmt.Fprintf(&sb, "\t\twithout %s\n", u.Without)
	}
	if u.Transparent {
		sb.WriteString("\t\ttransparent\n")
	}
	for _, r := range u.Rules {
		d := "header_" + r.Dir
		switch r.Op {
		case "set":
			fmt.Fprintf(&sb, "\t\t%s %s \"%s\"\n", d, r.Name, r.Value)
		case "add":
			fmt.Fprintf(&sb, "\t\t%s +%s \"%s\"\n", d, r.Name, r.Value)
		case "del":
			fmt.Fprintf(&sb, "\t\t%s -%s\n", d, r.Name)
		case "regex":
			fmt.Fprintf(&sb, "\t\t%s %s \"%s\" \"%s\"\n", d, r.Name, r.Re, r.Value)
		}
	}
	sb.WriteString("\t}\n}\n")
	return sb.String()
}

func makeBody(n int) []byte {
	b := make([]byte, n)
	for i := range b {
		b[i] = byte('a' + (i*13+i/509)%26)
	}
	return b
}

func rawRequest(r Req, id string) []byte {
	var sb bytes.Buffer
	fmt.Fprintf(&sb, "%s %s HTTP/1.1\r\nHost: proxy.test\r\nX-Case-Id: %s\r\n", r.Method, r.Target, id)
	sc, _ := json.Marshal(r.Script)
	fmt.Fprintf(&sb, "X-Backend-Script: %s\r\n", base64.StdEncoding.EncodeToString(sc))
	for _, kv := range r.Header {
		fmt.Fprintf(&sb, "%s: %s\r\n", kv[0], kv[1])
	}
	body := makeBody(r.BodyLen)
	switch {
	case r.Chunks != nil:
		sb.WriteString("Transfer-Encoding: chunked\r\n\r\n")
		off, i := 0, 0
		for off < len(body) {
			n := r.Chunks[i%len(r.Chunks)]
			i++
			if n <= 0 {
				n = 1
			}
			if off+n > len(body) {
				n = len(body) - off
			}
			fmt.Fprintf(&sb, "%x\r\n", n)
			sb.Write(body[off : off+n])
			sb.WriteString("\r\n")
			off += n
		}
		sb.WriteString("0\r\n\r\n")
	case r.BodyLen > 0 || r.Method == "POST" || r.Method == "PUT":
		fmt.Fprintf(&sb, "Content-Length: %d\r\n\r\n", len(body))
		sb.Write(body)
	default:
		sb.WriteString("\r\n")
	}
	return sb.Bytes()
}

var hop = map[string]bool{"Connection": true, "Keep-Alive": true, "Proxy-Authenticate": true, "Proxy-Authorization": true, "Te": true, "Trailer": true, "Transfer-Encoding": true, "Upgrade": true, "Proxy-Connection": true, "Alt-Svc": true, "Alternate-Protocol": true}

func canon(k string) string { return http.CanonicalHeaderKey(k) }

// connectionListed returns the header names listed in Connection headers.
func connectionListed(h [][2]string) map[string]bool {
	out := map[string]bool{}
	for _, kv := range h {
		if canon(kv[0]) == "Connection" {
			for _, f := range strings.Split(kv[1], ",") {
				if f = strings.TrimSpace(f); f != "" {
					out[canon(f)] = true
				}
			}
		}
	}
	return out
}

func multiset(h [][2]string) map[string][]string {
	m := map[string][]string{}
	for _, kv := range h {
		m[canon(kv[0])] = append(m[canon(kv[0])], kv[1])
	}
	return m
}

func expandPH(v string, r Req) string {
	v = strings.ReplaceAll(v, "{method}", r.Method)
	v = strings.ReplaceAll(v, "{host}", "proxy.test")
	return v
}

// applyRules models the documented header rule semantics, once.
func applyRules(h map[string][]string, rules []Rule, dir string, r Req) {
	// casket keeps set/add/del rules in one map and regex replacements in another;
	// all plain rules apply, then replacements
	for _, ru := range rules {
		if ru.Dir != dir {
			continue
		}
		name := canon(ru.Name)
		val := expandPH(ru.Value, r)
		switch ru.Op {
		case "set":
			if val != "" {
				h[name] = []string{val}
			}
		case "add":
			if val != "" {
				h[name] = append(h[name], val)
			}
		case "del":
			delete(h, name)
		}
	}
	for _, ru := range rules {
		if ru.Dir != dir || ru.Op != "regex" {
			continue
		}
		name := canon(ru.Name)
		if cur := h[name]; len(cur) > 0 && cur[0] != "" {
			// documented: replace matches in the (first) value
			re := ru.Re
			_ = re
			// only the two fixed patterns generated below
			switch ru.Re {
			case "^(.*)$":
				h[name] = []string{strings.ReplaceAll(expandPH(ru.Value, r), "$1", cur[0])}
			case "old":
				h[name] = []string{strings.ReplaceAll(cur[0], "old", expandPH(ru.Value, r))}
			}
		}
	}
}

func sortedCopy(v []string) []string {
	c := append([]string{}, v...)
	sort.Strings(c)
	return c
}

func sameMulti(a, b []string) bool {
	a, b = sortedCopy(a), sortedCopy(b)
	if len(a) != len(b) {
		return false
	}
	for i := range a {
		if a[i] != b[i] {
			return false
		}
	}
	return true
}

func singleJoiningSlash(a, b string) string {
	as, bs := strings.HasSuffix(a, "/"), strings.HasPrefix(b, "/")
	switch {
	case as && bs:
		return a + b[1:]
	case !as && !bs && b != "":
		return a + "/" + b
	}
	return a + b
}

var seq int64

var dbgDir = os.Getenv("VERIF_C04_DEBUG") // read before TestMain clears the environment

func logTail() string {
	l := srv.LogBuf.String()
	if len(l) > 1500 {
		l = l[len(l)-1500:]
	}
	return l
}

func runCase(c *Case) (nontrivial int, err error) {
	setupBackend()
	cf := casketfile(c.Up)
	inst, e := srv.Start(cf, "")
	if e != nil {
		srv.Stop(inst)
		return 0, fmt.Errorf("HARNESS: start: %v\n%s", e, cf)
	}
	defer srv.Stop(inst)
	addr := srv.Loopback(srv.Addrs(inst)[0])
	if c.V6 {
		addr = net.JoinHostPort("::1", srv.PortOf(srv.Addrs(inst)[0]))
		if probe, e := net.Dial("tcp", addr); e != nil {
			return 0, fmt.Errorf("HARNESS: no IPv6 loopback here: %v", e)
		} else {
			probe.Close()
		}
	}
	for i, r := range c.Reqs {
		id := fmt.Sprintf("c04-%d", atomic.AddInt64(&seq, 1))
		resp, e := srv.Once(addr, r.Method, rawRequest(r, id))
		desc := fmt.Sprintf("request %d %s %s (body %d, chunks %v) via upstream %+v", i, r.Method, r.Target, r.BodyLen, r.Chunks, c.Up)
		recMu.Lock()
		atts := rec[id]
		delete(rec, id)
		recMu.Unlock()
		u, perr := url.ParseRequestURI(r.Target)
		if perr != nil {
			continue
		}
		routed := pathMatches(u.Path, c.Up.From)
		if !routed {
			if len(atts) > 0 {
				return nontrivial, fmt.Errorf("%s: request outside %q reached the backend", desc, c.Up.From)
			}
			continue
		}
		listed := connectionListed(r.Header)
		isNT := r.BodyLen > 0 || len(c.Up.Rules) > 0 || strings.Contains(r.Target, "%") || len(r.Script.Announced)+len(r.Script.Unannounced) > 0 || c.Up.Retry
		for _, kv := range r.Header {
			if hop[canon(kv[0])] {
				isNT = true
			}
		}
		if isNT {
			nontrivial++
		}
		if e != nil {
			return nontrivial, fmt.Errorf("%s: no well-formed response: %v", desc, e)
		}
		if len(atts) == 0 {
			return nontrivial, fmt.Errorf("%s: backend never saw the request (client got %d %q)", desc, resp.Status, clip(resp.Body))
		}
		if len(atts) > 1 {
			return nontrivial, fmt.Errorf("%s: backend saw the request %d times", desc, len(atts))
		}
		got := atts[0]
		// --- request side ---
		if got.Method != r.Method {
			return nontrivial, fmt.Errorf("%s: backend saw method %s", desc, got.Method)
		}
		if got.RawQuery != u.RawQuery {
			return nontrivial, fmt.Errorf("%s: backend saw query %q, want %q", desc, got.RawQuery, u.RawQuery)
		}
		want := makeBody(r.BodyLen)
		if !bytes.Equal(got.Body, want) || got.BodyErr != "" {
			return nontrivial, fmt.Errorf("%s: backend received %d body bytes (equal=%v, err=%q), want %d", desc, len(got.Body), bytes.Equal(got.Body, want), got.BodyErr, len(want))
		}
		trimmed := u.Path
		if c.Up.Without != "" {
			trimmed = strings.TrimPrefix(trimmed, c.Up.Without)
		}
		wantPath := singleJoiningSlash(c.Up.Base, trimmed)
		if c.Up.Base == "" {
			wantPath = trimmed
		}
		if wantPath == "" {
			wantPath = "/"
		}
		if got.Path != wantPath {
			return nontrivial, fmt.Errorf("%s: backend saw path %q, want %q (base %q, without %q)", desc, got.Path, wantPath, c.Up.Base, c.Up.Without)
		}
		if strings.Contains(u.EscapedPath(), "%2F") || strings.Contains(u.EscapedPath(), "%2f") {
			escTrim := u.EscapedPath()
			if c.Up.Without != "" {
				escTrim = strings.TrimPrefix(escTrim, c.Up.Without)
			}
			wantEsc := singleJoiningSlash(c.Up.Base, escTrim)
			if c.Up.Base == "" {
				wantEsc = escTrim
			}
			if !strings.EqualFold(got.EscPath, wantEsc) {
				return nontrivial, fmt.Errorf("%s: backend saw escaped path %q, want %q (an encoded slash must stay encoded)", desc, got.EscPath, wantEsc)
			}
		}
		// headers: model of what must arrive
		exp := map[string][]string{}
		for k, v := range multiset(r.Header) {
			if hop[k] || listed[k] {
				continue
			}
			exp[k] = v
		}
		// X-Forwarded-For: prior values folded + client address
		prior := exp["X-Forwarded-For"]
		xff := c.clientIP()
		if len(prior) > 0 {
			xff = strings.Join(prior, ", ") + ", " + c.clientIP()
		}
		exp["X-Forwarded-For"] = []string{xff}
		if c.Up.Transparent {
			exp["X-Real-Ip"] = []string{c.clientIP()}
			exp["X-Forwarded-Proto"] = []string{"http"}
			exp["X-Forwarded-Port"] = []string{"80"}
		}
		applyRules(exp, c.Up.Rules, "upstream", r)
		for k, v := range exp {
			if k == "Host" || k == "X-Forwarded-Port" {
				continue
			}
			if c.Up.H2 && k == "Cookie" && len(v) > 1 {
				// HTTP/2 carries Cookie as crumbs which the receiving server joins with "; " (RFC 9113, 8.2.3)
				v = []string{strings.Join(v, "; ")}
			}
			if !sameMulti(got.Header[k], v) {
				return nontrivial, fmt.Errorf("%s: backend saw header %s = %q, want %q", desc, k, got.Header[k], v)
			}
		}
		for k := range got.Header {
			if hop[k] && k != "Transfer-Encoding" {
				return nontrivial, fmt.Errorf("%s: hop-by-hop header %s reached the backend: %q", desc, k, got.Header[k])
			}
			if _, configured := exp[k]; listed[k] && !configured {
				return nontrivial, fmt.Errorf("%s: header %s named in Connection reached the backend", desc, k)
			}
			if _, ok := exp[k]; !ok {
				switch k {
				case "User-Agent", "Accept-Encoding", "X-Case-Id", "X-Backend-Script", "Content-Length", "Content-Type":
				default:
					return nontrivial, fmt.Errorf("%s: backend saw unexpected header %s = %q", desc, k, got.Header[k])
				}
			}
		}
		wantHost := strings.TrimPrefix(strings.TrimPrefix(c.Up.backendURL(), "http://"), "https://")
		if c.Up.Transparent {
			wantHost = "proxy.test"
		}
		for _, ru := range c.Up.Rules {
			if ru.Dir == "upstream" && canon(ru.Name) == "Host" {
				wantHost = ""
			}
		}
		if wantHost != "" && got.Host != wantHost {
			return nontrivial, fmt.Errorf("%s: backend saw Host %q, want %q", desc, got.Host, wantHost)
		}
		// --- response side ---
		sc := r.Script
		ws := sc.Status
		if ws == 0 {
			ws = 200
		}
		if resp.Status != ws {
			return nontrivial, fmt.Errorf("%s: backend answered %d, client got %d", desc, ws, resp.Status)
		}
		var wb []byte
		for _, ch := range sc.Chunks {
			wb = append(wb, ch...)
		}
		if r.Method != "HEAD" && ws != 204 && ws != 304 && !bytes.Equal(resp.Body, wb) {
			if dbg := dbgDir; dbg != "" {
				os.WriteFile(fmt.Sprintf("%s/dbg-%d.txt", dbg, os.Getpid()), []byte(fmt.Sprintf("LOG:\n%s\nRAW(%d bytes) head:\n%q\nRAW tail:\n%q\n", srv.LogBuf.String(), len(resp.Raw), resp.Raw[:min(len(resp.Raw), 600)], resp.Raw[max(0, len(resp.Raw)-200):])), 0o644)
			}
			return nontrivial, fmt.Errorf("%s: backend wrote %d body bytes, client got %d (%q); server log: %s", desc, len(wb), len(resp.Body), clip(resp.Body), logTail()+fmt.Sprintf(" | raw head %q raw tail %q | response header %v | backend wrote=%d err=%q bodyErr=%v", resp.Raw[:min(len(resp.Raw), 500)], resp.Raw[max(0, len(resp.Raw)-80):], resp.Header, atts[len(atts)-1].Wrote, atts[len(atts)-1].WriteErr, atts[len(atts)-1].BodyErr))
		}
		rexp := map[string][]string{}
		blisted := connectionListed(sc.Header)
		for k, v := range multiset(sc.Header) {
			if hop[k] || blisted[k] {
				continue
			}
			rexp[k] = v
		}
		applyRules(rexp, c.Up.Rules, "downstream", r)
		for k, v := range rexp {
			if !sameMulti(resp.Header[k], v) {
				return nontrivial, fmt.Errorf("%s: client got header %s = %q, backend sent (after downstream rules) %q", desc, k, resp.Header[k], v)
			}
		}
		for k := range resp.Header {
			if (hop[k] && k != "Transfer-Encoding" && k != "Trailer" && k != "Connection") || blisted[k] {
				return nontrivial, fmt.Errorf("%s: hop-by-hop header %s from the backend reached the client: %q", desc, k, resp.Header[k])
			}
		}
		if r.Method != "HEAD" && ws != 204 && ws != 304 {
			texp := multiset(append(append([][2]string{}, sc.Announced...), sc.Unannounced...))
			for k, v := range texp {
				if !sameMulti(resp.Trailer[k], v) {
					return nontrivial, fmt.Errorf("%s: client got trailer %s = %q, backend sent %q (all trailers: %v)", desc, k, resp.Trailer[k], v, resp.Trailer)
				}
			}
			for k, v := range resp.Trailer {
				if _, ok := texp[k]; !ok && len(v) > 0 {
					return nontrivial, fmt.Errorf("%s: client got trailer %s = %q the backend never sent", desc, k, v)
				}
			}
		}
	}
	return nontrivial, nil
}

// documented matcher semantics, written independently: cleaned, case-insensitive prefix
func pathMatches(p, base string) bool {
	if base == "/" || base == "" {
		return true
	}
	pt, bt := strings.HasSuffix(p, "/"), strings.HasSuffix(base, "/")
	p, base = path.Clean(p), path.Clean(base)
	if pt {
		p += "/"
	}
	if bt {
		base += "/"
	}
	return strings.HasPrefix(strings.ToLower(p), strings.ToLower(base))
}

func clip(b []byte) string {
	if len(b) > 60 {
		return string(b[:60]) + "..."
	}
	return string(b)
}

// ---------------------------------------------------------------------------

var bodyLens = []int{0, 0, 1, 100, 32767, 32768, 32769, 65535, 65536, 65537, 100000}
var endToEnd = []string{"X-A", "X-B", "Accept", "Cookie", "X-Del", "X-Re", "Authorization", "X-Up", "If-None-Match", "X-Long"}

func genReqHeaders(t *rapid.T, lb string) [][2]string {
	var h [][2]string
	n := rapid.IntRange(0, 6).Draw(t, lb+"nh")
	for i := 0; i < n; i++ {
		k := rapid.SampledFrom(endToEnd).Draw(t, fmt.Sprintf("%sk%d", lb, i))
		v := rapid.SampledFrom([]string{"v1", "v2", "a, b", "old value old", "x=1; y=2", "ünï", strings.Repeat("long", 50)}).Draw(t, fmt.Sprintf("%sv%d", lb, i))
		h = append(h, [2]string{k, v})
	}
	switch rapid.IntRange(0, 7).Draw(t, lb+"hop") {
	case 6:
		// hop-by-hop fields whose first line is empty
		h = append(h, [2]string{"Keep-Alive", ""}, [2]string{"Keep-Alive", "timeout=5"}, [2]string{"Proxy-Authorization", ""}, [2]string{"Proxy-Authorization", "Basic abc"})
	case 0:
		h = append(h, [2]string{"Keep-Alive", "timeout=5"}, [2]string{"Proxy-Authorization", "Basic abc"})
	case 1:
		h = append(h, [2]string{"Connection", "X-Hop1, X-Hop2"}, [2]string{"X-Hop1", "secret-hop"}, [2]string{"X-Hop2", "h2"})
	case 2:
		h = append(h, [2]string{"Te", "trailers"}, [2]string{"Connection", "keep-alive, X-A"})
	case 3:
		h = append(h, [2]string{"Proxy-Connection", "keep-alive"}, [2]string{"Upgrade", "h2c-not"})
	case 4:
		// the named field occurs twice and its first line is empty; the name is listed in lower case
		h = append(h, [2]string{"X-Hop3", ""}, [2]string{"X-Hop3", "secret-hop3"}, [2]string{"Connection", "x-hop3"})
	case 5:
		// two Connection lines, each naming a field
		h = append(h, [2]string{"Connection", "X-Hop4"}, [2]string{"X-Hop4", ""}, [2]string{"Connection", "keep-alive, x-hop5"}, [2]string{"X-Hop5", "h5"})
	}
	switch rapid.IntRange(0, 3).Draw(t, lb+"xff") {
	case 0:
		h = append(h, [2]string{"X-Forwarded-For", "10.1.1.1"})
	case 1:
		h = append(h, [2]string{"X-Forwarded-For", "10.1.1.1, 10.2.2.2"}, [2]string{"X-Forwarded-For", "10.3.3.3"})
	}
	return h
}

func genScript(t *rapid.T, lb string) BackendScript {
	s := BackendScript{Status: rapid.SampledFrom([]int{200, 200, 201, 204, 301, 404, 500, 503}).Draw(t, lb+"st")}
	s.Header = append(s.Header, [2]string{"Content-Type", "text/plain; charset=utf-8"})
	n := rapid.IntRange(0, 5).Draw(t, lb+"nh")
	for i := 0; i < n; i++ {
		k := rapid.SampledFrom([]string{"X-R1", "X-R2", "Set-Cookie", "Cache-Control", "X-Down", "X-Drop", "Etag", "Location", "X-Rre"}).Draw(t, fmt.Sprintf("%sk%d", lb, i))
		v := rapid.SampledFrom([]string{"r1", "r2", "a=b; Path=/", "old thing", "no-cache"}).Draw(t, fmt.Sprintf("%sv%d", lb, i))
		s.Header = append(s.Header, [2]string{k, v})
	}
	switch rapid.IntRange(0, 5).Draw(t, lb+"hop") {
	case 0:
		s.Header = append(s.Header, [2]string{"Keep-Alive", "timeout=9"}, [2]string{"Proxy-Authenticate", "Basic realm=x"})
	case 1:
		s.Header = append(s.Header, [2]string{"Connection", "X-Bhop"}, [2]string{"X-Bhop", "backend-hop"})
	case 2:
		// the backend closes the connection after this response
		s.Header = append(s.Header, [2]string{"Connection", "close"})
		// ("close" together with other names is not generated: Go's transport deletes the whole
		// Connection field of a response that says close before casket sees it, so the names
		// listed next to it cannot be known to any proxy built on net/http)
	}
	if s.Status != 204 {
		nc := rapid.IntRange(0, 3).Draw(t, lb+"nc")
		for i := 0; i < nc; i++ {
			sz := rapid.SampledFrom([]int{0, 1, 100, 32768, 40000}).Draw(t, fmt.Sprintf("%sc%d", lb, i))
			s.Chunks = append(s.Chunks, bytes.Repeat([]byte{byte('A' + i)}, sz))
			s.Flush = append(s.Flush, rapid.Bool().Draw(t, fmt.Sprintf("%sf%d", lb, i)))
		}
		switch rapid.IntRange(0, 5).Draw(t, lb+"tr") {
		case 0:
			s.Announced = [][2]string{{"X-Checksum", "abc123"}}
		case 1:
			s.Unannounced = [][2]string{{"X-Late", "late-value"}}
		case 2:
			s.Announced = [][2]string{{"X-Checksum", "abc123"}, {"X-T2", "t2"}}
			s.Unannounced = [][2]string{{"X-Late", "late-value"}}
		case 3:
			// a trailer whose name is also an ordinary response header (preliminary value)
			s.Header = append(s.Header, [2]string{"X-Checksum", "preliminary"})
			s.Announced = [][2]string{{"X-Checksum", "final-abc"}}
		}
	}
	return s
}

var targets = []string{"/api/x", "/api/a/b/c", "/api/a%2Fb", "/api/x%20y", "/api/a+b", "/api/%C3%A9", "/api/", "/api", "/api/x?q=1&r=a%20b", "/api/x?", "/other/x", "/api/x//y", "/api/..%2Fz", "/api/x?a=%2F&b=+"}

func genCase(t *rapid.T) *Case {
	c := &Case{V6: rapid.IntRange(0, 4).Draw(t, "v6") == 0}
	u := Upstream{From: rapid.SampledFrom([]string{"/", "/api"}).Draw(t, "from")}
	u.Base = rapid.SampledFrom([]string{"", "", "/base", "/base/"}).Draw(t, "base")
	if u.From == "/api" && rapid.Bool().Draw(t, "without") {
		u.Without = "/api"
	}
	u.Transparent = rapid.IntRange(0, 3).Draw(t, "transparent") == 0
	u.Retry = rapid.IntRange(0, 3).Draw(t, "retry") == 0
	nr := rapid.IntRange(0, 4).Draw(t, "nrules")
	usedNames := map[string]bool{}
	for i := 0; i < nr; i++ {
		lb := fmt.Sprintf("ru%d", i)
		ru := Rule{Dir: rapid.SampledFrom([]string{"upstream", "downstream"}).Draw(t, lb+"d")}
		ru.Op = rapid.SampledFrom([]string{"set", "add", "del", "regex"}).Draw(t, lb+"op")
		if ru.Dir == "upstream" {
			ru.Name = rapid.SampledFrom([]string{"X-Up", "X-A", "X-Del", "X-Re", "X-New"}).Draw(t, lb+"n")
		} else {
			ru.Name = rapid.SampledFrom([]string{"X-Down", "X-R1", "X-Drop", "X-Rre", "X-Newd"}).Draw(t, lb+"n")
		}
		// one rule per (direction, name): casket stores rules in maps keyed by name
		key := ru.Dir + ru.Name
		if usedNames[key] {
			continue
		}
		usedNames[key] = true
		ru.Value = rapid.SampledFrom([]string{"fixed", "{method}-val", "{host}", "new"}).Draw(t, lb+"v")
		if ru.Op == "regex" {
			ru.Re = rapid.SampledFrom([]string{"^(.*)$", "old"}).Draw(t, lb+"re")
			if ru.Re == "^(.*)$" {
				ru.Value = "pre-$1"
			}
		}
		u.Rules = append(u.Rules, ru)
	}
	u.H2 = rapid.IntRange(0, 4).Draw(t, "h2backend") == 0
	c.Up = u
	n := rapid.IntRange(1, 6).Draw(t, "nreq")
	for i := 0; i < n; i++ {
		lb := fmt.Sprintf("r%d", i)
		r := Req{Method: rapid.SampledFrom([]string{"GET", "POST", "PUT", "DELETE", "PATCH"}).Draw(t, lb+"m"), Target: rapid.SampledFrom(targets).Draw(t, lb+"t")}
		r.Header = genReqHeaders(t, lb)
		if r.Method != "GET" && r.Method != "DELETE" {
			r.BodyLen = rapid.SampledFrom(bodyLens).Draw(t, lb+"bl")
			if rapid.Bool().Draw(t, lb+"ch") {
				r.Chunks = rapid.SliceOfN(rapid.SampledFrom([]int{1, 7, 1000, 32768, 50000}), 1, 3).Draw(t, lb+"cs")
			}
		}
		r.Script = genScript(t, lb)
		if u.H2 {
			// an HTTP/2 server does not transmit a Connection field (Go's drops it from the handler's
			// header), so the fields it names cannot be known to the proxy: not generated
			var kept [][2]string
			for _, kv := range r.Script.Header {
				if canon(kv[0]) != "Connection" {
					kept = append(kept, kv)
				}
			}
			r.Script.Header = kept
		}
		c.Reqs = append(c.Reqs, r)
	}
	return c
}

func TestRelay(t *testing.T) {
	if vt.ReplayPath() != "" {
		t.Skip("replay mode")
	}
	rapid.Check(t, func(t *rapid.T) {
		c := genCase(t)
		nt, err := runCase(c)
		var classes []string
		if c.Up.Retry {
			classes = append(classes, "retry")
		}
		if c.Up.H2 {
			classes = append(classes, "http2-tls-backend")
		}
		if c.Up.Transparent {
			classes = append(classes, "transparent")
		}
		if c.Up.Base != "" {
			classes = append(classes, "base-path")
		}
		if len(c.Up.Rules) > 0 {
			classes = append(classes, "header-rules")
		}
		vt.Record("relay", c, nt > 0, classes...)
		vt.Extra("relay", "exchanges", len(c.Reqs))
		vt.Extra("relay", "nontrivial_exchanges", nt)
		vt.Check(t, "relay", c, err)
	})
}

// ---------------------------------------------------------------------------
// pressure: the same relay oracle for bodies, with many exchanges in flight at
// once, so that the windows between "backend has answered" and "request side
// has been wound up" are hit under real scheduling pressure.

type PressureCase struct {
	Clients  int   `json:"clients"`
	PerConn  int   `json:"per_client"`
	ReqLens  []int `json:"req_lens"`  // request body lengths (Content-Length framing), cycled
	RespLens []int `json:"resp_lens"` // backend body lengths, cycled; written in two chunks without flush
	Chunked  bool  `json:"chunked"`   // request bodies use chunked framing instead
	// Contended: max_conns below the number of clients, retries on, and header rules that are not idempotent,
	// so that requests are bounced at the connection cap and tried again
	Contended bool `json:"contended,omitempty"`
	MaxConns  int  `json:"max_conns,omitempty"`
}

func runPressure(c *PressureCase) error {
	setupBackend()
	up := Upstream{From: "/"}
	if c.Contended {
		up = Upstream{From: "/", Base: "/base", MaxConns: c.MaxConns, TryMs: 20000, Rules: []Rule{{Dir: "upstream", Op: "add", Name: "X-Add", Value: "v"}, {Dir: "upstream", Op: "set", Name: "X-Set", Value: "s"}}}
	}
	inst, e := srv.Start(casketfile(up), "")
	if e != nil {
		srv.Stop(inst)
		return fmt.Errorf("HARNESS: start: %v", e)
	}
	defer srv.Stop(inst)
	addr := srv.Loopback(srv.Addrs(inst)[0])
	errs := make(chan error, c.Clients)
	var wg sync.WaitGroup
	for ci := 0; ci < c.Clients; ci++ {
		wg.Add(1)
		go func(ci int) {
			defer wg.Done()
			for k := 0; k < c.PerConn; k++ {
				id := fmt.Sprintf("c04p-%d", atomic.AddInt64(&seq, 1))
				rl := c.ReqLens[(ci+k)%len(c.ReqLens)]
				wl := c.RespLens[(ci*7+k)%len(c.RespLens)]
				wb := bytes.Repeat([]byte{byte('A' + (ci+k)%26)}, wl)
				r := Req{Method: "POST", Target: "/p", BodyLen: rl, Script: BackendScript{Status: 200, Header: [][2]string{{"Content-Type", "text/plain"}}, Chunks: [][]byte{wb[:min(100, wl)], wb[min(100, wl):]}, Flush: []bool{false, false}}}
				if c.Chunked {
					r.Chunks = []int{4096}
				}
				resp, err := srv.Once(addr, r.Method, rawRequest(r, id))
				recMu.Lock()
				atts := rec[id]
				delete(rec, id)
				recMu.Unlock()
				desc := fmt.Sprintf("client %d request %d (POST, request body %d bytes, backend body %d bytes, %d clients in parallel)", ci, k, rl, wl, c.Clients)
				switch {
				case err != nil:
					errs <- fmt.Errorf("%s: no well-formed response: %v", desc, err)
				case len(atts) != 1:
					errs <- fmt.Errorf("%s: backend saw the request %d times", desc, len(atts))
				case c.Contended && (atts[0].Path != "/base/p" || !sameMulti(atts[0].Header["X-Add"], []string{"v"}) || !sameMulti(atts[0].Header["X-Set"], []string{"s"})):
					errs <- fmt.Errorf("%s (max_conns %d, retries on): backend saw path %q, X-Add %q, X-Set %q; want /base/p, [v], [s] exactly once", desc, c.MaxConns, atts[0].Path, atts[0].Header["X-Add"], atts[0].Header["X-Set"])
				case !bytes.Equal(atts[0].Body, makeBody(rl)):
					errs <- fmt.Errorf("%s: backend received %d body bytes that differ from the %d sent", desc, len(atts[0].Body), rl)
				case resp.Status != 200 || !bytes.Equal(resp.Body, wb):
					errs <- fmt.Errorf("%s: backend wrote %d body bytes, client got status %d and %d bytes; server log: %s", desc, wl, resp.Status, len(resp.Body), logTail())
				default:
					continue
				}
				return
			}
		}(ci)
	}
	wg.Wait()
	select {
	case err := <-errs:
		return err
	default:
		return nil
	}
}

func TestPressure(t *testing.T) {
	if vt.ReplayPath() != "" {
		t.Skip("replay mode")
	}
	rapid.Check(t, func(t *rapid.T) {
		c := &PressureCase{Clients: rapid.SampledFrom([]int{8, 16, 32, 64}).Draw(t, "clients"), PerConn: rapid.IntRange(5, 30).Draw(t, "per"), Chunked: rapid.IntRange(0, 4).Draw(t, "chunked") == 0}
		c.ReqLens = rapid.SliceOfN(rapid.SampledFrom([]int{1, 100, 4096, 32767, 32768, 32769, 65536, 100000}), 1, 4).Draw(t, "reqlens")
		c.RespLens = rapid.SliceOfN(rapid.SampledFrom([]int{1, 100, 2048, 4096, 8192, 32768, 65537, 200000}), 1, 4).Draw(t, "resplens")
		if rapid.IntRange(0, 2).Draw(t, "contended") == 0 {
			c.Contended = true
			c.Clients = rapid.SampledFrom([]int{4, 8, 16}).Draw(t, "cclients")
			c.MaxConns = rapid.IntRange(1, 3).Draw(t, "maxconns")
			c.RespLens = []int{100, 2048}
			c.ReqLens = []int{1, 4096}
		}
		err := runPressure(c)
		vt.Record("pressure", c, c.Clients >= 16 || c.Contended, fmt.Sprintf("clients=%d", c.Clients))
		vt.Extra("pressure", "exchanges", c.Clients*c.PerConn)
		vt.Check(t, "pressure", c, err)
	})
}

func replayCase(rf *vt.ReplayFile) error {
	if rf.Sub == "pressure" {
		var c PressureCase
		if err := vt.Decode(rf, &c); err != nil {
			return err
		}
		for i := 0; i < 10; i++ {
			if err := runPressure(&c); err != nil {
				return err
			}
		}
		return nil
	}
	var c Case
	if err := vt.Decode(rf, &c); err != nil {
		return err
	}
	_, err := runCase(&c)
	return err
}

func TestReplay(t *testing.T) { vt.RunReplay(t, replayCase) }
func TestCorpus(t *testing.T) { vt.RunCorpus(t, replayCase) }
