package c02

import (
	"bytes"
	"encoding/json"
	"fmt"
	"net/url"
	"os"
	"path"
	"path/filepath"
	"regexp"
	"strconv"
	"strings"
	"sync"
	"testing"

	"github.com/tmpim/casket"
	"pgregory.net/rapid"

	"verif/harness/internal/fixture"
	"verif/harness/internal/srv"
	"verif/harness/internal/vt"
)

func TestMain(m *testing.M) {
	vt.Property = "C02"
	vt.Main(m)
}

var (
	treeOnce sync.Once
	tree     *fixture.Tree
)

func getTree() *fixture.Tree {
	treeOnce.Do(func() {
		var err error
		tree, err = fixture.Build(filepath.Join(vt.WorkDir, "c02"))
		if err != nil {
			panic(err)
		}
	})
	return tree
}

// ---------------------------------------------------------------------------

type Site struct {
	Browse     string   `json:"browse"`      // "", "/", "/noindex"
	Archives   []string `json:"archives"`    // servearchive types ("" entry = all)
	Index      string   `json:"index"`       // custom index directive argument list, "" = default
	RootSlash  bool     `json:"root_slash"`  // root given with trailing slash
	PathPrefix string   `json:"path_prefix"` // site declared as host/prefix
	Origin     string   `json:"origin"`      // file (relative to the root) the site is loaded from: hidden. "" = Casketfile
	// Before: the same Casketfile first declares another site whose root does not contain the Casketfile
	Before bool `json:"before,omitempty"`
	// Internal: `internal` lines in written order; entries that exist on disk are hidden files of the site
	Internal []string `json:"internal,omitempty"`
}

func (s Site) origin() string {
	if s.Origin == "" {
		return "Casketfile"
	}
	return s.Origin
}

type Req struct {
	Method string `json:"method"`
	Target string `json:"target"` // raw request target (path + optional query)
	AE     string `json:"ae"`
	// Replace: not a request; at this point of the sequence the operator replaces the origin
	// Casketfile by a new file with the same text (write + rename: new inode, as editors do)
	Replace bool   `json:"replace,omitempty"`
	Accept  string `json:"accept"`
}

type Case struct {
	Site Site  `json:"site"`
	Reqs []Req `json:"reqs"`
}

func casketfile(s Site) string {
	t := getTree()
	root := t.Root
	if s.RootSlash {
		root += "/"
	}
	var sb strings.Builder
	if s.Before {
		fmt.Fprintf(&sb, "http://before.test:0 {\n\troot %s\n}\n", filepath.Join(t.Root, "internal"))
	}
	fmt.Fprintf(&sb, "http://localhost:0%s {\n\troot %s\n", s.PathPrefix, root)
	for _, ip := range s.Internal {
		fmt.Fprintf(&sb, "\tinternal %s\n", ip)
	}
	if s.Index != "" {
		fmt.Fprintf(&sb, "\tindex %s\n", s.Index)
	}
	if s.Browse != "" {
		fmt.Fprintf(&sb, "\tbrowse %s", s.Browse)
		if len(s.Archives) > 0 {
			sb.WriteString(" {\n\t\tservearchive")
			for _, a := range s.Archives {
				if a != "" {
					sb.WriteString(" " + a)
				}
			}
			sb.WriteString("\n\t}")
		}
		sb.WriteString("\n")
	}
	sb.WriteString("}\n")
	return sb.String()
}

func c_hidden(s Site, rel string) bool {
	for _, ip := range s.Internal {
		if "/"+rel == ip {
			return true
		}
	}
	return rel == s.origin()
}

var locOK = regexp.MustCompile(`^/([^/\\]|$)`)

// indexNames returns the site's index page names.
func (s Site) indexNames() []string {
	if s.Index != "" {
		return strings.Fields(s.Index)
	}
	return []string{"index.html", "index.htm", "index.txt", "default.html", "default.htm", "default.txt"}
}

// offered reports whether the Accept-Encoding value makes the coding
// acceptable: listed with a weight other than zero, or covered by a "*" with
// a weight other than zero while not listed itself.
func offered(ae, coding string) bool {
	if ae == "-" {
		return false
	}
	star, listed, ok := false, false, false
	for _, a := range strings.Split(ae, ",") {
		parts := strings.Split(a, ";")
		name := strings.TrimSpace(parts[0])
		q := 1.0
		for _, prm := range parts[1:] {
			prm = strings.TrimSpace(prm)
			if len(prm) > 2 && (prm[0] == 'q' || prm[0] == 'Q') && prm[1] == '=' {
				if v, err := strconv.ParseFloat(prm[2:], 64); err == nil {
					q = v
				}
			}
		}
		switch {
		case strings.EqualFold(name, coding):
			listed = true
			if q > 0 {
				ok = true
			}
		case name == "*" && q > 0:
			star = true
		}
	}
	return ok || (star && !listed)
}

// allowedBodies: the set of fixture files whose exact bytes may be the body
// of a 200 file response for the cleaned path p (relative, no leading slash).
func allowedFor(t *fixture.Tree, s Site, p string, trailingSlash bool, ae string) []*fixture.File {
	var base *fixture.File
	if f := t.Files[p]; f != nil && !f.Outside && !trailingSlash {
		base = f
	} else if t.Dirs[p] && trailingSlash {
		for _, ix := range s.indexNames() {
			rel := path.Join(p, ix)
			if f := t.Files[rel]; f != nil && !f.Outside {
				base = f
				break
			}
		}
	}
	if base == nil || c_hidden(s, base.Rel) {
		return nil
	}
	out := []*fixture.File{base}
	for _, enc := range []struct{ name, ext string }{{"zstd", ".zst"}, {"br", ".br"}, {"gzip", ".gz"}} {
		if offered(ae, enc.name) {
			if sf := t.Files[base.Rel+enc.ext]; sf != nil {
				out = append(out, sf)
			}
		}
	}
	return out
}

type seqObs struct {
	status            int
	loc, ce, ct, body string
}

func runCase(c *Case) (nontrivial int, err error) {
	t := getTree()
	origin := filepath.Join(t.Root, filepath.FromSlash(c.Site.origin()))
	inst, e := casket.Start(casket.CasketfileInput{Contents: []byte(casketfile(c.Site)), Filepath: origin, ServerTypeName: "http"})
	if e != nil {
		srv.Stop(inst)
		return 0, fmt.Errorf("HARNESS: start: %v\n%s", e, casketfile(c.Site))
	}
	defer srv.Stop(inst)
	addr := srv.Loopback(srv.Addrs(inst)[0])
	conn, e := srv.Dial(addr)
	if e != nil {
		return 0, fmt.Errorf("HARNESS: dial: %v", e)
	}
	defer func() { conn.Close() }()
	seq := make([]*seqObs, len(c.Reqs))
	for i, r := range c.Reqs {
		if r.Replace {
			if b, rerr := os.ReadFile(origin); rerr == nil {
				os.WriteFile(origin+".verif-new", b, 0o644)
				os.Rename(origin+".verif-new", origin)
				if c.Site.origin() == "Casketfile" {
					// the fixture's second name for the Casketfile follows it to the new file
					alias := filepath.Join(t.Root, "dir", "alias-of-casketfile.conf")
					os.Remove(alias)
					os.Link(origin, alias)
				}
			}
			continue
		}
		hdr := [][2]string{}
		if r.AE != "-" {
			hdr = append(hdr, [2]string{"Accept-Encoding", r.AE})
		}
		if r.Accept != "" {
			hdr = append(hdr, [2]string{"Accept", r.Accept})
		}
		resp, e := conn.Do(r.Method, srv.Request(r.Method, c.Site.PathPrefix+r.Target, "localhost", hdr, nil))
		if e != nil {
			// a target the server rejects outright (400) closes the connection: redial
			conn.Close()
			if conn, e = srv.Dial(addr); e != nil {
				return nontrivial, fmt.Errorf("HARNESS: redial: %v", e)
			}
			continue
		}
		if resp.Close {
			conn.Close()
			if conn, e = srv.Dial(addr); e != nil {
				return nontrivial, fmt.Errorf("HARNESS: redial: %v", e)
			}
		}
		seq[i] = &seqObs{resp.Status, resp.Header.Get("Location"), resp.Header.Get("Content-Encoding"), resp.Header.Get("Content-Type"), string(resp.Body)}
		desc := fmt.Sprintf("request %d %s %q AE=%q Accept=%q on site %+v", i, r.Method, r.Target, r.AE, r.Accept, c.Site)
		u, perr := url.ParseRequestURI(r.Target)
		var cleaned string
		var trailing bool
		var query url.Values
		if perr == nil {
			cleaned = strings.TrimPrefix(path.Clean("/"+u.Path), "/")
			trailing = strings.HasSuffix(u.Path, "/")
			query = u.Query()
		}
		if perr == nil && (u.Path != "/"+cleaned && u.Path != "/"+cleaned+"/" || query.Get("archive") != "" || cleaned == c.Site.origin() || strings.Contains(r.Target, "Casketfile")) {
			nontrivial++
		}
		// (d) redirects stay on the same origin
		if resp.Status >= 300 && resp.Status < 400 {
			loc := resp.Header.Get("Location")
			if !locOK.MatchString(loc) {
				return nontrivial, fmt.Errorf("%s: redirect %d with Location %q does not start with exactly one '/'", desc, resp.Status, loc)
			}
			continue
		}
		body := resp.Body
		ce := resp.Header.Get("Content-Encoding")
		var decoded []byte
		switch ce {
		case "gzip":
			if len(body) > 0 {
				if decoded, e = fixture.Gunzip(body); e != nil {
					// a .gz sibling is real gzip in this fixture
					return nontrivial, fmt.Errorf("%s: Content-Encoding gzip but body does not decode: %v", desc, e)
				}
			}
		default:
			decoded = body
		}
		// archives
		isArchive := false
		if perr == nil && resp.Status == 200 && query.Get("archive") != "" && strings.HasPrefix(resp.Header.Get("Content-Disposition"), "attachment") {
			isArchive = true
			kind := query.Get("archive")
			if r.Method != "HEAD" && (kind == "zip" || kind == "tar" || kind == "tar.gz") {
				ents, e := fixture.Unarchive(kind, decoded)
				if e != nil {
					return nontrivial, fmt.Errorf("%s: archive does not decode: %v", desc, e)
				}
				for _, en := range ents {
					if en.IsDir {
						continue
					}
					// names are <base>/<relative path>
					parts := strings.SplitN(en.Name, "/", 2)
					relInDir := en.Name
					if len(parts) == 2 {
						relInDir = parts[1]
					}
					rel := path.Join(cleaned, relInDir)
					f := t.Files[rel]
					if f2 := t.Files[path.Join(cleaned, en.Name)]; f2 != nil {
						f = f2 // archives of the root have no top-level folder in entry names
					}
					if f == nil || f.Outside {
						return nontrivial, fmt.Errorf("%s: archive entry %q is not a file under the requested directory %q", desc, en.Name, cleaned)
					}
					if c_hidden(c.Site, f.Rel) {
						return nontrivial, fmt.Errorf("%s: archive contains the hidden file %s (entry %q)", desc, f.Rel, en.Name)
					}
					if !bytes.Equal(en.Data, f.Content) {
						return nontrivial, fmt.Errorf("%s: archive entry %q does not have the bytes of %s", desc, en.Name, f.Rel)
					}
				}
				continue
			}
		}
		// (a) provenance of every token in the decoded body
		for _, f := range t.TokensIn(decoded) {
			if f.Outside {
				return nontrivial, fmt.Errorf("%s: response (status %d) contains content of %s, which is outside the site root", desc, resp.Status, f.Rel)
			}
			if c_hidden(c.Site, f.Rel) {
				return nontrivial, fmt.Errorf("%s: response (status %d) contains content of the hidden file %s", desc, resp.Status, f.Rel)
			}
		}
		if isArchive || perr != nil {
			continue
		}
		if resp.Status != 200 {
			continue
		}
		ct := resp.Header.Get("Content-Type")
		isListing := c.Site.Browse != "" && t.Dirs[cleaned] && trailing && (strings.HasPrefix(ct, "application/json") || bytes.Contains(decoded, []byte("<title>")) && strings.HasPrefix(ct, "text/html") && len(allowedFor(t, c.Site, cleaned, trailing, r.AE)) == 0)
		if isListing {
			// listings never name hidden files
			if strings.HasPrefix(ct, "application/json") {
				var items []struct{ Name string }
				if json.Unmarshal(decoded, &items) == nil {
					for _, it := range items {
						if c_hidden(c.Site, path.Join(cleaned, it.Name)) {
							return nontrivial, fmt.Errorf("%s: JSON listing names the hidden file %s", desc, it.Name)
						}
						rel := path.Join(cleaned, it.Name)
						if t.Files[rel] == nil && !t.Dirs[rel] {
							return nontrivial, fmt.Errorf("%s: JSON listing names %q which is not an entry of %q", desc, it.Name, cleaned)
						}
					}
				}
			} else if path.Dir(c.Site.origin()) == cleaned || (cleaned == "" && !strings.Contains(c.Site.origin(), "/")) {
				if bytes.Contains(decoded, []byte("\"./"+path.Base(c.Site.origin())+"\"")) {
					return nontrivial, fmt.Errorf("%s: HTML listing links the hidden file %s", desc, c.Site.origin())
				}
			}
			continue
		}
		if r.Method == "HEAD" {
			continue
		}
		// (b) exactness for 200 file responses
		allowed := allowedFor(t, c.Site, cleaned, trailing, r.AE)
		ok := false
		for k, f := range allowed {
			wantCE := f.Sibling
			if k == 0 {
				wantCE = "" // the named file itself is served as it is
			}
			if bytes.Equal(body, f.Content) && ce == wantCE {
				ok = true
			}
		}
		if !ok {
			var names []string
			for _, f := range allowed {
				names = append(names, f.Rel)
			}
			return nontrivial, fmt.Errorf("%s: 200 with Content-Encoding %q and %d body bytes %q is not the file the cleaned path %q names, its index page, or an accepted sibling (allowed: %v)", desc, ce, len(body), clip(decoded), cleaned, names)
		}
	}
	// the same requests once more from several connections at once: what a path
	// yields must not depend on what else is being served at that moment
	var wg sync.WaitGroup
	cerr := make(chan error, 8)
	for g := 0; g < 6; g++ {
		wg.Add(1)
		go func(g int) {
			defer wg.Done()
			cc, err := srv.Dial(addr)
			if err != nil {
				return
			}
			defer func() { cc.Close() }()
			for k := range c.Reqs {
				i := (k*5 + g*3) % len(c.Reqs)
				r := c.Reqs[i]
				if r.Replace || seq[i] == nil {
					continue
				}
				if strings.Contains(r.Target, "archive=") || strings.HasPrefix(seq[i].ct, "application/json") || strings.Contains(seq[i].body, "<title>") {
					continue // archives and listings carry modification times (the origin file may have been replaced meanwhile)
				}
				hdr := [][2]string{}
				if r.AE != "-" {
					hdr = append(hdr, [2]string{"Accept-Encoding", r.AE})
				}
				if r.Accept != "" {
					hdr = append(hdr, [2]string{"Accept", r.Accept})
				}
				resp, err := cc.Do(r.Method, srv.Request(r.Method, c.Site.PathPrefix+r.Target, "localhost", hdr, nil))
				if err != nil {
					cc.Close()
					if cc, err = srv.Dial(addr); err != nil {
						return
					}
					continue
				}
				got := seqObs{resp.Status, resp.Header.Get("Location"), resp.Header.Get("Content-Encoding"), resp.Header.Get("Content-Type"), string(resp.Body)}
				if got != *seq[i] {
					select {
					case cerr <- fmt.Errorf("request %d %s %q AE=%q answered differently while 5 other connections were being served: status %d, Content-Encoding %q, %d body bytes; on its own: status %d, Content-Encoding %q, %d body bytes (site %+v)", i, r.Method, r.Target, r.AE, got.status, got.ce, len(got.body), seq[i].status, seq[i].ce, len(seq[i].body), c.Site):
					default:
					}
					return
				}
				if resp.Close {
					cc.Close()
					if cc, err = srv.Dial(addr); err != nil {
						return
					}
				}
			}
		}(g)
	}
	wg.Wait()
	select {
	case err := <-cerr:
		return nontrivial, err
	default:
	}
	return nontrivial, nil
}

func clip(b []byte) string {
	if len(b) > 50 {
		return string(b[:50]) + "..."
	}
	return string(b)
}

// ---------------------------------------------------------------------------
// generators

var segs = []string{"..", ".", "", "%2e%2e", "%2E", "%2e", "%2f", "%5c", "\\", "..\\", "a.txt", "A.TXT", "b.html", "c.txt", "dir", "Dir", "sub", "deep", "noindex", "inner", "index.html", "secret", "public", "Casketfile", "casketfile", "CASKETFILE", "Casketfile.", "Casketfile ", "Casketfile%20", "%43asketfile", "outside", "o.txt", "outside.txt", "root", ".hidden", "h.txt", "sp%20ace", "sp ace", "g.txt", "a.txt.gz", "d.txt", "UPPER.TXT", "upper.txt", "é", "%00", "a.txt%00", "...", "..;", "%252e%252e", "alias-of-casketfile.conf"}
var joins = []string{"/", "/", "/", "//", "%2f", "/./", "\\"}

func genTarget(t *rapid.T, lb string) string {
	// either a near-valid path built from real names, or an adversarial mix
	var sb strings.Builder
	n := rapid.IntRange(0, 6).Draw(t, lb+"n")
	lead := rapid.SampledFrom([]string{"/", "/", "/", "//", "///", "/./", "/../", "/%2e%2e/"}).Draw(t, lb+"lead")
	sb.WriteString(lead)
	for i := 0; i < n; i++ {
		if i > 0 {
			sb.WriteString(rapid.SampledFrom(joins).Draw(t, fmt.Sprintf("%sj%d", lb, i)))
		}
		sb.WriteString(rapid.SampledFrom(segs).Draw(t, fmt.Sprintf("%ss%d", lb, i)))
	}
	if rapid.IntRange(0, 2).Draw(t, lb+"ts") == 0 {
		sb.WriteString("/")
	}
	tgt := strings.ReplaceAll(sb.String(), " ", "%20")
	switch rapid.IntRange(0, 9).Draw(t, lb+"q") {
	case 0:
		tgt += "?archive=" + rapid.SampledFrom([]string{"zip", "tar", "tar.gz", "bogus", "tar.zst", ""}).Draw(t, lb+"ar")
	case 1:
		tgt += "?sort=" + rapid.SampledFrom([]string{"name", "size", "time", "x"}).Draw(t, lb+"so") + "&order=" + rapid.SampledFrom([]string{"asc", "desc"}).Draw(t, lb+"or")
	case 2:
		tgt += "?limit=" + rapid.SampledFrom([]string{"1", "0", "-1", "x", "99999999999999999999"}).Draw(t, lb+"li")
	}
	return tgt
}

var realTargets = []string{"/", "/a.txt", "/b.html", "/c.txt", "/dir", "/dir/", "/dir/b.txt", "/dir/sub/", "/dir/sub/c.txt", "/noindex/", "/noindex", "/noindex/d.txt", "/Casketfile", "/index.html", "/a.txt/", "/noindex/inner/", "/sp%20ace/g.txt", "/.hidden/h.txt", "/dir/alias-of-casketfile.conf", "/dir/./alias-of-casketfile.conf", "/dir//alias-of-casketfile.conf",
	"/?archive=zip", "/?archive=tar", "/?archive=tar.gz", "/noindex/?archive=zip", "/dir/sub/?archive=tar", "/noindex/?archive=tar.gz", "//noindex", "//dir", "///dir", "//a.txt/", "///a.txt/", "///example.com%2f../a.txt/", "//example.com/..", "/%2e%2e/outside/o.txt", "/..%2foutside.txt", "/dir/../../outside/o.txt"}

func genReq(t *rapid.T, lb string) Req {
	r := Req{Method: "GET", AE: rapid.SampledFrom([]string{"-", "gzip", "br", "zstd", "gzip, br", "zstd, gzip", "identity", "junk", "gzip, deflate, br, zstd", "deflate, gzip, zstd",
		"gzip;q=0", "identity, gzip;q=0", "br;q=0, gzip", "zstd;q=0.0, br;q=0, gzip;q=0", "gzip;q=0.5", "*;q=0", "*", "GZIP"}).Draw(t, lb+"ae")}
	if rapid.IntRange(0, 5).Draw(t, lb+"head") == 0 {
		r.Method = "HEAD"
	}
	if rapid.IntRange(0, 4).Draw(t, lb+"json") == 0 {
		r.Accept = "application/json"
	}
	if rapid.IntRange(0, 2).Draw(t, lb+"real") == 0 {
		r.Target = rapid.SampledFrom(realTargets).Draw(t, lb+"rt")
	} else {
		r.Target = genTarget(t, lb)
	}
	return r
}

func genSite(t *rapid.T) Site {
	s := Site{}
	s.Browse = rapid.SampledFrom([]string{"", "/", "/", "/noindex"}).Draw(t, "browse")
	if s.Browse != "" && rapid.IntRange(0, 2).Draw(t, "arch") != 0 {
		s.Archives = rapid.SampledFrom([][]string{{""}, {"zip"}, {"tar", "tar.gz"}, {"zip", "tar", "tar.gz"}}).Draw(t, "archives")
	}
	s.Index = rapid.SampledFrom([]string{"", "", "b.txt index.html", "c.txt", "d.txt", "Casketfile index.html", "d.txt e.html"}).Draw(t, "index")
	s.Origin = rapid.SampledFrom([]string{"", "", "", "dir/index.html", "noindex/d.txt", "dir/sub/c.txt"}).Draw(t, "origin")
	s.RootSlash = rapid.Bool().Draw(t, "rootslash")
	// the site may be declared under a path prefix (host/prefix): requests then carry the prefix
	s.PathPrefix = rapid.SampledFrom([]string{"", "", "", "/pre", "/pre/fix"}).Draw(t, "prefix")
	s.Before = rapid.IntRange(0, 2).Draw(t, "before") == 0
	if s.PathPrefix == "" {
		s.Internal = rapid.SampledFrom([][]string{nil, nil, {"/public/p1.txt"}, {"/api/private", "/public/p1.txt"}, {"/no/such/file.txt", "/noindex/e.html", "/public/p1.txt"}}).Draw(t, "internal")
	}
	return s
}

func TestFiles(t *testing.T) {
	if vt.ReplayPath() != "" {
		t.Skip("replay mode")
	}
	rapid.Check(t, func(t *rapid.T) {
		c := &Case{Site: genSite(t)}
		n := rapid.IntRange(10, 40).Draw(t, "nreq")
		for i := 0; i < n; i++ {
			if i > 2 && rapid.IntRange(0, 24).Draw(t, fmt.Sprintf("rep%d", i)) == 0 {
				c.Reqs = append(c.Reqs, Req{Replace: true})
			}
			c.Reqs = append(c.Reqs, genReq(t, fmt.Sprintf("r%d", i)))
		}
		if vt.Open("archive-includes-hidden") {
			for i := range c.Reqs {
				if strings.Contains(c.Reqs[i].Target, "archive=") {
					c.Reqs[i].Target = strings.Replace(c.Reqs[i].Target, "archive=", "archiv=", 1)
					vt.Excluded("files", "archive-includes-hidden")
				}
			}
		}
		nt, err := runCase(c)
		classes := []string{"browse=" + c.Site.Browse}
		if len(c.Site.Archives) > 0 {
			classes = append(classes, "servearchive")
		}
		vt.Record("files", c, nt > 0, classes...)
		vt.Extra("files", "requests", len(c.Reqs))
		vt.Extra("files", "nontrivial_requests", nt)
		vt.Check(t, "files", c, err)
	})
}

func replayCase(rf *vt.ReplayFile) error {
	var c Case
	if err := vt.Decode(rf, &c); err != nil {
		return err
	}
	_, err := runCase(&c)
	return err
}

func TestReplay(t *testing.T) { vt.RunReplay(t, replayCase) }
func TestCorpus(t *testing.T) { vt.RunCorpus(t, replayCase) }

var _ = os.Remove
