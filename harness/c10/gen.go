package c10

import (
	"fmt"
	"sort"
	"strings"
	"unicode"
	"unicode/utf8"

	"pgregory.net/rapid"
)

// ---------------------------------------------------------------------------
// AST

type Line struct {
	Toks []string // Toks[0] is the directive name (top level) or the sub-directive
	Sub  []Line   // nil = no block; empty non-nil = "{ }" is not generated (ambiguous layout)
	Has  bool     // has a sub-block
}

type Block struct {
	Keys  []string
	Lines []Line
}

type AST struct {
	Blocks []Block
}

// Env is the fixed environment of the C10 process.
var Env = map[string]string{
	"VA": "alpha",
	"VB": "two words",
	"VC": "",
	"VD": "/srv/www",
}

// HostileEnv holds values that contain placeholder syntax themselves: a
// self-reference, a mutual reference in the other style, a reference to an
// ordinary variable, and an unterminated opener.
var HostileEnv = map[string]string{
	"VE": "{$VE}",
	"VF": "x{%VG%}",
	"VG": "{%VF%}y",
	"VH": "pre{$VA}post",
	"VI": "{$",
}

func expandEnv(s string) string {
	for k, v := range Env {
		s = strings.ReplaceAll(s, "{$"+k+"}", v)
		s = strings.ReplaceAll(s, "{%"+k+"%}", v)
	}
	s = strings.ReplaceAll(s, "{$VUNSET}", "")
	s = strings.ReplaceAll(s, "{%VUNSET%}", "")
	return s
}

// token text classes -----------------------------------------------------------

var plainWords = []string{"a", "b", "root", "gzip", "log", "/", "/api", "*.php", "example.com", "localhost:2015", "10", "1s", "off", "{path}", "{>X-Y}", "x=y", "a,b", "ext", "to", "-", "+H", "\\", "a\\b", `a"b`, "é", "日本", ":80", "http://h", "(p)x", "im", "imports", "{", "}"}

func isStructural(s string) bool { return s == "{" || s == "}" }

// expressible reports whether the lexer can produce exactly this text from
// some spelling (quoted or not).
func expressible(s string) bool {
	if !utf8.ValidString(s) {
		return false
	}
	if strings.ContainsRune(s, 0xFEFF) { // a BOM at file start is dropped; avoid ambiguity
		return false
	}
	return canBare(s) || canQuote(s)
}

func canBare(s string) bool {
	if s == "" || s[0] == '"' {
		return false
	}
	for _, r := range s {
		if unicode.IsSpace(r) || r == '#' {
			return false
		}
	}
	return true
}

func canQuote(s string) bool {
	if strings.Contains(s, `\"`) || strings.HasSuffix(s, `\`) {
		return false
	}
	return true
}

func hasEnvSyntax(s string) bool {
	return strings.Contains(s, "{$") || strings.Contains(s, "{%")
}

var envRefs = []string{"{$VA}", "{%VA%}", "{$VB}", "{$VC}", "{%VD%}", "{$VUNSET}", "{$VD}"}

// genTokText draws the text of an argument token.
func genTokText(t *rapid.T, label string) string {
	k := rapid.IntRange(0, 99).Draw(t, label+"k")
	switch {
	case k < 45:
		w := rapid.SampledFrom(plainWords).Draw(t, label+"w")
		if isStructural(w) {
			return "x" + w
		}
		return w
	case k < 55:
		// env reference alone or embedded
		r := rapid.SampledFrom(envRefs).Draw(t, label+"e")
		switch rapid.IntRange(0, 2).Draw(t, label+"ek") {
		case 0:
			return r
		case 1:
			return "pre" + r + "post"
		default:
			return r + "/" + rapid.SampledFrom(envRefs).Draw(t, label+"e2")
		}
	case k < 70:
		// needs quoting: whitespace, #, newlines, quotes
		parts := rapid.SliceOfN(rapid.SampledFrom([]string{"a", " ", "\t", "\n", "#", `"`, "{", "}", "b c", "\r", "\\n", "import", "é", " ", "'", ","}), 1, 5).Draw(t, label+"q")
		s := strings.Join(parts, "")
		if !expressible(s) || hasEnvSyntax(s) || isStructural(s) {
			return "q q"
		}
		return s
	case k < 74:
		return "" // empty quoted token
	default:
		s := rapid.StringOfN(rapid.RuneFrom([]rune("ab/.:-_*{}\\\"'#, \n\té日$%()")), 1, 8, -1).Draw(t, label+"r")
		if !expressible(s) || hasEnvSyntax(s) || isStructural(s) {
			return "r"
		}
		return s
	}
}

var dirNames = []string{"root", "gzip", "log", "proxy", "rewrite", "header", "tls", "errors", "d1", "d2", "x-y", "fast_cgi", "Dir", "é", "a.b"}
var subNames = []string{"ext", "to", "if", "header_upstream", "k", "not", "r", "-X", "+Y", "level", "import_x"}

func genLines(t *rapid.T, depth int, label string, top bool) []Line {
	max := 4
	if depth > 0 {
		max = 3
	}
	n := rapid.IntRange(1, max).Draw(t, label+"n")
	var out []Line
	for i := 0; i < n; i++ {
		l := Line{}
		lb := fmt.Sprintf("%s%d", label, i)
		var name string
		if top {
			name = rapid.SampledFrom(dirNames).Draw(t, lb+"name")
		} else {
			if rapid.IntRange(0, 9).Draw(t, lb+"sk") < 7 {
				name = rapid.SampledFrom(subNames).Draw(t, lb+"name")
			} else {
				name = genTokText(t, lb+"name")
				if name == "import" || name == "" {
					name = "k"
				}
			}
		}
		l.Toks = append(l.Toks, name)
		na := rapid.IntRange(0, 4).Draw(t, lb+"na")
		for j := 0; j < na; j++ {
			l.Toks = append(l.Toks, genTokText(t, fmt.Sprintf("%sa%d", lb, j)))
		}
		if depth < 3 && rapid.IntRange(0, 9).Draw(t, lb+"hs") < 3-depth {
			l.Has = true
			l.Sub = genLines(t, depth+1, lb+"s", false)
		}
		out = append(out, l)
	}
	return out
}

var hostKeys = []string{"example.com", "localhost", ":2015", "a.test:80", "http://b.test", "*.c.test", "https://d.test/path", "127.0.0.1:8080", "[::1]:80", "e.test/x", "{$VA}.test", "UPPER.test", "é.test", "k,k"}

func genAST(t *rapid.T) AST {
	nb := rapid.IntRange(1, 4).Draw(t, "nblocks")
	var a AST
	for i := 0; i < nb; i++ {
		lb := fmt.Sprintf("b%d", i)
		nk := rapid.IntRange(1, 3).Draw(t, lb+"nk")
		b := Block{}
		for j := 0; j < nk; j++ {
			k := rapid.SampledFrom(hostKeys).Draw(t, fmt.Sprintf("%sk%d", lb, j))
			b.Keys = append(b.Keys, k)
		}
		if rapid.IntRange(0, 9).Draw(t, lb+"empty") > 0 {
			b.Lines = genLines(t, 0, lb+"l", true)
		}
		a.Blocks = append(a.Blocks, b)
	}
	return a
}

// ---------------------------------------------------------------------------
// Expectation derived from the AST

type ExpTok struct {
	Text string `json:"text"`
	File string `json:"file"` // base name of the file the token is written in
	New  bool   `json:"new"`  // first token of a physical line (relative to the previous token of this directive)
}

type ExpDir struct {
	Name string   `json:"name"`
	Toks []ExpTok `json:"toks"`
}

type ExpBlock struct {
	Keys []string `json:"keys"`
	Dirs []ExpDir `json:"dirs"` // sorted by name
}

// ---------------------------------------------------------------------------
// Renderer.  It writes the AST as text, choosing layout and splitting into
// imported files and snippets, and records for every token where it went.

type renderer struct {
	t        *rapid.T
	files    map[string]string
	nfile    int
	fancy    bool // layout variation on
	split    bool // import/snippet splitting on
	crlf     bool
	snippets []string // snippet definitions (rendered text), emitted at the top of the main file
	nsnip    int
	seq      int
	used     map[string]bool
}

type out struct {
	r    *renderer
	file string // base name (relative path from the sandbox dir)
	dir  string // directory of the file relative to sandbox ("" or "inc")
	sb   strings.Builder
}

func (r *renderer) draw(max int, label string) int {
	if !r.fancy {
		return 0
	}
	r.seq++
	return rapid.IntRange(0, max).Draw(r.t, fmt.Sprintf("L%d%s", r.seq, label))
}

func (r *renderer) drawSplit(max int, label string) int {
	if !r.split {
		return 0
	}
	r.seq++
	return rapid.IntRange(0, max).Draw(r.t, fmt.Sprintf("S%d%s", r.seq, label))
}

func (o *out) nl() {
	if o.r.crlf {
		o.sb.WriteString("\r\n")
	} else {
		o.sb.WriteString("\n")
	}
}

func (o *out) noise() {
	// blank lines / comment lines between physical lines
	switch o.r.draw(11, "noise") {
	case 1:
		o.nl()
	case 2:
		o.sb.WriteString("# comment { } \" import x")
		o.nl()
	case 3:
		o.sb.WriteString("  \t")
		o.nl()
	case 10:
		// a long comment line: around and beyond the sizes of read buffers (4096, 8192, 65536)
		n := []int{4000, 4095, 4096, 4097, 5000, 8191, 8200, 20000, 70000}[o.r.draw(8, "longc")]
		o.sb.WriteString("# " + strings.Repeat("long comment with tokens } { import \" ", n/30+1)[:n])
		o.nl()
	}
}

func (o *out) indent(depth int) {
	switch o.r.draw(3, "ind") {
	case 0:
		o.sb.WriteString(strings.Repeat("\t", depth))
	case 1:
		o.sb.WriteString(strings.Repeat("  ", depth))
	case 2:
	case 3:
		o.sb.WriteString(" \t ")
	}
}

func (o *out) sep() {
	switch o.r.draw(4, "sep") {
	case 0, 1, 2:
		o.sb.WriteString(" ")
	case 3:
		o.sb.WriteString("\t")
	case 4:
		o.sb.WriteString("   ")
	}
}

func (o *out) eol() {
	switch o.r.draw(7, "eol") {
	case 1:
		o.sb.WriteString(" # trailing comment } {")
	case 2:
		o.sb.WriteString("  ")
	case 6:
		// the comment starts right after the last character of the token before it ("The rest of the line
		// is skipped if a # character is read in", lexer.go); its words are not tokens
		o.sb.WriteString("#comment")
	case 7:
		o.sb.WriteString("#abutting comment of several words } { \" import x")
	}
	o.nl()
}

func quoteTok(s string) string {
	return `"` + strings.ReplaceAll(s, `"`, `\"`) + `"`
}

func (o *out) tok(s string) {
	bare, q := canBare(s), canQuote(s)
	switch {
	case bare && q:
		if o.r.draw(4, "quote") == 4 {
			o.sb.WriteString(quoteTok(s))
		} else {
			o.sb.WriteString(s)
		}
	case bare:
		o.sb.WriteString(s)
	default:
		o.sb.WriteString(quoteTok(s))
	}
}

type collector struct {
	dirs map[string]*ExpDir
}

func (c *collector) add(dir string, text string, file string, isNew bool) {
	d := c.dirs[dir]
	if d == nil {
		d = &ExpDir{Name: dir}
		c.dirs[dir] = d
	}
	d.Toks = append(d.Toks, ExpTok{Text: expandEnv(text), File: file, New: isNew})
}

// newFileName returns (path relative to the sandbox, spelling relative to the importing file's directory)
func (r *renderer) newFileName(dir string, prefix string) (string, string) {
	r.nfile++
	name := fmt.Sprintf("%s%02d.inc", prefix, r.nfile)
	if dir != "" {
		return dir + "/" + name, name
	}
	return name, name
}

// renderLines writes lines (top-level directives of a block when dirName ==
// "", else the sub-lines of directive dirName) into o, possibly moving runs
// of lines into imported files or snippets.
func (r *renderer) renderLines(o *out, lines []Line, depth int, dirName string, col *collector) {
	i := 0
	for i < len(lines) {
		// maybe split off a run [i, j)
		if r.split && r.drawSplit(5, "cut") == 0 {
			j := i + 1 + r.drawSplit(len(lines)-i-1, "len")
			kind := r.drawSplit(3, "kind")
			o.noise()
			o.indent(depth)
			switch {
			case kind <= 1:
				// one imported file
				fn, rel := r.newFileName(o.dir, "inc")
				sub := &out{r: r, file: fn, dir: o.dir}
				r.renderRun(sub, lines[i:j], depth, dirName, col)
				r.files[fn] = sub.sb.String()
				o.sb.WriteString("import")
				o.sep()
				spell := rel
				switch r.drawSplit(2, "spell") {
				case 1:
					spell = "./" + rel
				case 2:
					spell = quoteTok(rel)
				}
				o.sb.WriteString(spell)
				o.eol()
			case kind == 2:
				// glob import over consecutive files in a directory of their own
				r.nfile++
				grel := fmt.Sprintf("glob%02d", r.nfile)
				gdir := grel
				if o.dir != "" {
					gdir = o.dir + "/" + grel
				}
				for k := i; k < j; k++ {
					fn := fmt.Sprintf("%s/p%03d.conf", gdir, k)
					sub := &out{r: r, file: fn, dir: gdir}
					r.renderRun(sub, lines[k:k+1], depth, dirName, col)
					r.files[fn] = sub.sb.String()
				}
				o.sb.WriteString("import")
				o.sep()
				o.sb.WriteString(grel + "/*.conf")
				o.eol()
			default:
				// snippet defined at the top of the main file
				r.nsnip++
				name := fmt.Sprintf("snip%d", r.nsnip)
				// the snippet body is physically in the main file
				sub := &out{r: r, file: "Casketfile"}
				sub.sb.WriteString("(" + name + ") {")
				sub.nl()
				saveSplit := r.split
				r.split = false // no imports inside snippet bodies (line-number ordering: see DESIGN C10 notes)
				r.renderRun(sub, lines[i:j], depth, dirName, col)
				r.split = saveSplit
				sub.sb.WriteString("}")
				sub.nl()
				r.snippets = append(r.snippets, sub.sb.String())
				o.sb.WriteString("import")
				o.sep()
				o.sb.WriteString(name)
				o.eol()
			}
			i = j
			continue
		}
		if r.split && r.drawSplit(11, "empty") == 0 {
			// an import that contributes no token at all: an empty or
			// comment-only snippet, or an empty or comment-only file
			body := []string{"", "\t# nothing here\n", "\n\n"}[r.drawSplit(2, "ebody")]
			o.noise()
			o.indent(depth)
			o.sb.WriteString("import")
			o.sep()
			if r.drawSplit(1, "ekind") == 0 {
				r.nsnip++
				name := fmt.Sprintf("empty%d", r.nsnip)
				r.snippets = append(r.snippets, "("+name+") {\n"+body+"}\n")
				o.sb.WriteString(name)
			} else {
				fn, rel := r.newFileName(o.dir, "empty")
				if body == "" {
					body = "# a file with nothing but this comment\n" // a zero-byte file is rejected (EOF), which the statement allows
				}
				r.files[fn] = body
				o.sb.WriteString(rel)
			}
			o.eol()
		}
		r.renderRun(o, lines[i:i+1], depth, dirName, col)
		i++
	}
}

// renderRun writes the lines into o without splitting at this level.
func (r *renderer) renderRun(o *out, lines []Line, depth int, dirName string, col *collector) {
	for _, l := range lines {
		o.noise()
		o.indent(depth)
		dn := dirName
		if dn == "" {
			dn = l.Toks[0]
		}
		for k, tk := range l.Toks {
			if k > 0 {
				o.sep()
			}
			o.tok(tk)
			col.add(dn, tk, o.file, k == 0)
		}
		if l.Has {
			o.sep()
			o.sb.WriteString("{")
			col.add(dn, "{", o.file, false)
			o.eol()
			r.renderLines(o, l.Sub, depth+1, dn, col)
			o.noise()
			o.indent(depth)
			o.sb.WriteString("}")
			col.add(dn, "}", o.file, true)
		}
		o.eol()
	}
}

// Case is what a C10 round-trip replay file holds.
type Case struct {
	Files  map[string]string `json:"files"`
	Main   string            `json:"main"`
	Expect []ExpBlock        `json:"expect"`
	Layout string            `json:"layout"`
}

func render(t *rapid.T, a AST, fancy, split bool, label string) Case {
	r := &renderer{t: t, files: map[string]string{}, fancy: fancy, split: split, used: map[string]bool{}}
	r.seq = int(hashLabel(label)) % 1000 * 1000
	if fancy {
		r.crlf = rapid.IntRange(0, 5).Draw(t, label+"crlf") == 0
	}
	main := &out{r: r, file: "Casketfile"}
	var exp []ExpBlock
	braceless := len(a.Blocks) == 1 && fancy && rapid.IntRange(0, 3).Draw(t, label+"braceless") == 0

	var body strings.Builder
	// top-level: maybe move a run of whole blocks into an imported file
	bi := 0
	for bi < len(a.Blocks) {
		target := main
		var sub *out
		run := 1
		if split && !braceless && r.drawSplit(4, "topcut") == 0 {
			run = 1 + r.drawSplit(len(a.Blocks)-bi-1, "toplen")
			fn, _ := r.newFileName("", "blocks")
			sub = &out{r: r, file: fn}
			target = sub
		}
		for k := bi; k < bi+run; k++ {
			b := a.Blocks[k]
			col := &collector{dirs: map[string]*ExpDir{}}
			target.noise()
			// keys
			var keys []string
			for ki, key := range b.Keys {
				keys = append(keys, expandEnv(key))
				if ki < len(b.Keys)-1 {
					switch r.draw(3, "keysep") {
					case 0, 1:
						target.tok(key + ",")
						target.sb.WriteString(" ")
					case 2:
						target.tok(key + ",")
						target.eol()
						target.sb.WriteString("  ")
					case 3:
						target.tok(key)
						target.sb.WriteString(" ")
					}
				} else {
					target.tok(key)
				}
			}
			if braceless {
				target.eol()
				r.renderLines(target, b.Lines, 0, "", col)
			} else {
				if r.draw(6, "bracenl") == 6 {
					target.eol()
					target.sb.WriteString("{")
				} else {
					target.sep()
					target.sb.WriteString("{")
				}
				target.eol()
				r.renderLines(target, b.Lines, 1, "", col)
				target.noise()
				target.sb.WriteString("}")
				if !(k == len(a.Blocks)-1 && target == main && r.draw(3, "noeol") == 3) {
					target.eol()
				}
			}
			eb := ExpBlock{Keys: keys}
			var names []string
			for n := range col.dirs {
				names = append(names, n)
			}
			sort.Strings(names)
			for _, n := range names {
				eb.Dirs = append(eb.Dirs, *col.dirs[n])
			}
			exp = append(exp, eb)
		}
		if sub != nil {
			r.files[sub.file] = sub.sb.String()
			main.noise()
			main.sb.WriteString("import")
			main.sep()
			main.sb.WriteString(sub.file)
			main.eol()
		}
		bi += run
	}
	body.WriteString(main.sb.String())
	var full strings.Builder
	if fancy && rapid.IntRange(0, 7).Draw(t, label+"bom") == 0 {
		full.WriteString("\xef\xbb\xbf")
	}
	for _, s := range r.snippets {
		full.WriteString(s)
	}
	full.WriteString(body.String())
	r.files["Casketfile"] = full.String()
	lay := "plain"
	if fancy {
		lay = "fancy"
	}
	if split {
		lay += "+split"
	}
	return Case{Files: r.files, Main: "Casketfile", Expect: exp, Layout: lay}
}

func hashLabel(s string) uint32 {
	var h uint32 = 2166136261
	for i := 0; i < len(s); i++ {
		h ^= uint32(s[i])
		h *= 16777619
	}
	return h
}
