package c10

import (
	"fmt"
	"os"
	"path/filepath"
	"reflect"
	"regexp"
	"runtime"
	"sort"
	"strings"
	"testing"
	"time"

	"github.com/tmpim/casket/casketfile"
	"pgregory.net/rapid"

	"verif/harness/internal/vt"
)

func TestMain(m *testing.M) {
	vt.Property = "C10"
	for k, v := range Env {
		os.Setenv(k, v)
	}
	keep := []string{}
	for k := range Env {
		keep = append(keep, k)
	}
	// values that themselves contain placeholder syntax: used only by the
	// totality sub-checks (the statement does not say whether such text is
	// expanded again, but parsing must end)
	for k, v := range HostileEnv {
		os.Setenv(k, v)
		keep = append(keep, k)
	}
	vt.Main(m, keep...)
}

// ---------------------------------------------------------------------------
// running the real parser under a watchdog

type parseResult struct {
	blocks []casketfile.ServerBlock
	err    error
	pan    interface{}
	stack  string
	hung   bool
	slow   bool // returned, but late and on a starved machine
}

func parseWatchdog(filename string, input []byte, limit time.Duration) parseResult {
	ch := make(chan parseResult, 1)
	go func() {
		var r parseResult
		defer func() {
			if p := recover(); p != nil {
				r.pan = p
				buf := make([]byte, 1<<14)
				r.stack = string(buf[:runtime.Stack(buf, false)])
			}
			ch <- r
		}()
		r.blocks, r.err = casketfile.Parse(filename, strings.NewReader(string(input)), nil)
	}()
	beats, at := vt.Beats(), time.Now()
	select {
	case r := <-ch:
		return r
	case <-time.After(limit):
		if !vt.Starved(beats, at) {
			return parseResult{hung: true} // the machine was responsive all along: the parser is stuck
		}
		// the whole process was short of CPU: a long second chance; a case that
		// then returns is discarded, not judged
		select {
		case r := <-ch:
			r.slow = true
			return r
		case <-time.After(6 * limit):
			return parseResult{hung: true}
		}
	}
}

// materialise writes the case's files into a fresh directory and returns it.
func materialise(files map[string]string) (string, error) {
	dir, err := os.MkdirTemp(vt.WorkDir, "c10-")
	if err != nil {
		return "", err
	}
	for name, content := range files {
		if filepath.IsAbs(name) || strings.Contains(name, "..") {
			return "", fmt.Errorf("unsafe file name %q", name)
		}
		p := filepath.Join(dir, name)
		os.MkdirAll(filepath.Dir(p), 0o755)
		if err := os.WriteFile(p, []byte(content), 0o644); err != nil {
			return "", err
		}
	}
	return dir, nil
}

var errLineRe = regexp.MustCompile(`^(.*):(\d+) - (Error during parsing|Syntax error): `)

// ---------------------------------------------------------------------------
// sub-check "roundtrip"

// generic walk over a directive's tokens, the way directive setups consume
// them: name, same-line args, then block lines with their args.
type walkEv struct {
	Val  string
	Args []string
}

func walk(filename string, toks []casketfile.Token) (evs []walkEv) {
	d := casketfile.NewDispenserTokens(filename, toks)
	guard := 0
	for d.Next() {
		evs = append(evs, walkEv{Val: "DIR:" + d.Val(), Args: d.RemainingArgs()})
		for d.NextBlock() {
			evs = append(evs, walkEv{Val: d.Val(), Args: d.RemainingArgs()})
			guard++
			if guard > 100000 {
				return append(evs, walkEv{Val: "RUNAWAY"})
			}
		}
	}
	return evs
}

// checkRoundTrip parses the case and compares with its expectation.
// It returns the walk of every directive (for the cross-layout comparison).
func checkRoundTrip(c *Case) (walks map[string][]walkEv, err error) {
	dir, e := materialise(c.Files)
	if e != nil {
		return nil, fmt.Errorf("HARNESS: %v", e)
	}
	defer os.RemoveAll(dir)
	mainPath := filepath.Join(dir, c.Main)
	res := parseWatchdog(mainPath, []byte(c.Files[c.Main]), 10*time.Second)
	if res.slow {
		return nil, fmt.Errorf("HARNESS: Parse needed more than 10 s on a starved machine: no verdict")
	}
	if res.hung {
		return nil, fmt.Errorf("HANG: Parse did not return within 10s")
	}
	if res.pan != nil {
		return nil, fmt.Errorf("PANIC: %v\n%s", res.pan, res.stack)
	}
	if res.err != nil {
		return nil, fmt.Errorf("well-formed configuration rejected: %v", res.err)
	}
	if len(res.blocks) != len(c.Expect) {
		return nil, fmt.Errorf("got %d server blocks, want %d", len(res.blocks), len(c.Expect))
	}
	walks = map[string][]walkEv{}
	for bi, eb := range c.Expect {
		gb := res.blocks[bi]
		if !reflect.DeepEqual(append([]string{}, gb.Keys...), append([]string{}, eb.Keys...)) {
			return nil, fmt.Errorf("block %d: keys %q, want %q", bi, gb.Keys, eb.Keys)
		}
		var gotNames []string
		for n := range gb.Tokens {
			gotNames = append(gotNames, n)
		}
		sort.Strings(gotNames)
		var wantNames []string
		for _, d := range eb.Dirs {
			wantNames = append(wantNames, d.Name)
		}
		if !reflect.DeepEqual(gotNames, wantNames) {
			return nil, fmt.Errorf("block %d: directives %q, want %q", bi, gotNames, wantNames)
		}
		for _, ed := range eb.Dirs {
			gt := gb.Tokens[ed.Name]
			if len(gt) != len(ed.Toks) {
				return nil, fmt.Errorf("block %d directive %q: %d tokens %q, want %d %q", bi, ed.Name, len(gt), texts(gt), len(ed.Toks), expTexts(ed.Toks))
			}
			for i, et := range ed.Toks {
				g := gt[i]
				// the directive name token keeps its raw text; everything else is env-expanded
				if g.Text != et.Text {
					return nil, fmt.Errorf("block %d directive %q token %d: text %q, want %q", bi, ed.Name, i, g.Text, et.Text)
				}
				gf := g.File
				if gf == "" {
					gf = mainPath
				}
				if rel, _ := filepath.Rel(dir, gf); rel != et.File {
					return nil, fmt.Errorf("block %d directive %q token %d (%q): attributed to file %q, written in %q", bi, ed.Name, i, g.Text, rel, et.File)
				}
				if i > 0 {
					p := gt[i-1]
					// what a directive setup sees through the public Dispenser API
					pd := casketfile.NewDispenserTokens(mainPath, gt[i-1:i+1])
					pd.Next()
					same := pd.NextArg()
					pd = casketfile.NewDispenserTokens(mainPath, gt[i-1:i+1])
					pd.Next()
					if newl := pd.NextLine(); newl == same {
						return nil, fmt.Errorf("block %d directive %q token %d (%q): Dispenser.NextArg says same-line=%v but NextLine says new-line=%v", bi, ed.Name, i, g.Text, same, newl)
					}
					if same == et.New {
						return nil, fmt.Errorf("block %d directive %q token %d (%q): same-line-as-previous=%v, written new-line=%v (prev %q %s:%d, this %s:%d)",
							bi, ed.Name, i, g.Text, same, et.New, p.Text, filepath.Base(p.File), p.Line, filepath.Base(g.File), g.Line)
					}
				}
			}
			walks[fmt.Sprintf("%d/%s", bi, ed.Name)] = walk(mainPath, gt)
		}
	}
	return walks, nil
}

func texts(ts []casketfile.Token) []string {
	var s []string
	for _, t := range ts {
		s = append(s, t.Text)
	}
	return s
}
func expTexts(ts []ExpTok) []string {
	var s []string
	for _, t := range ts {
		s = append(s, t.Text)
	}
	return s
}

type rtCase struct {
	Variants []Case `json:"variants"` // [0] is the canonical plain layout
}

func runRoundTrip(c *rtCase) error {
	var base map[string][]walkEv
	for i := range c.Variants {
		w, err := checkRoundTrip(&c.Variants[i])
		if err != nil {
			return fmt.Errorf("variant %d (%s): %v", i, c.Variants[i].Layout, err)
		}
		if i == 0 {
			base = w
			continue
		}
		if !reflect.DeepEqual(base, w) {
			for k := range base {
				if !reflect.DeepEqual(base[k], w[k]) {
					return fmt.Errorf("variant %d (%s): a directive setup walking %s sees %v, but %v in the plain inline layout", i, c.Variants[i].Layout, k, w[k], base[k])
				}
			}
			return fmt.Errorf("variant %d: walks differ", i)
		}
	}
	return nil
}

func TestRoundTrip(t *testing.T) {
	if vt.ReplayPath() != "" {
		t.Skip("replay mode")
	}
	rapid.Check(t, func(t *rapid.T) {
		a := genAST(t)
		c := &rtCase{}
		c.Variants = append(c.Variants, render(t, a, false, false, "v0"))
		c.Variants = append(c.Variants, render(t, a, true, false, "v1"))
		c.Variants = append(c.Variants, render(t, a, true, true, "v2"))
		c.Variants = append(c.Variants, render(t, a, false, true, "v3"))
		// classification
		nd, quoted, subb, envr := 0, false, false, false
		var cl func(ls []Line)
		cl = func(ls []Line) {
			for _, l := range ls {
				nd++
				if l.Has {
					subb = true
					cl(l.Sub)
				}
				for _, tk := range l.Toks {
					if !canBare(tk) {
						quoted = true
					}
					if hasEnvSyntax(tk) {
						envr = true
					}
				}
			}
		}
		for _, b := range a.Blocks {
			cl(b.Lines)
		}
		splitUsed := len(c.Variants[2].Files) > 1 || len(c.Variants[3].Files) > 1 ||
			strings.Contains(c.Variants[2].Files["Casketfile"], "(snip") || strings.Contains(c.Variants[3].Files["Casketfile"], "(snip")
		var classes []string
		if quoted {
			classes = append(classes, "quoted-token")
		}
		if subb {
			classes = append(classes, "sub-block")
		}
		if envr {
			classes = append(classes, "env-ref")
		}
		if splitUsed {
			classes = append(classes, "import-or-snippet-split")
		}
		if len(a.Blocks) > 1 {
			classes = append(classes, "multi-block")
		}
		nontrivial := nd >= 2 && (quoted || subb || envr || splitUsed)
		err := runRoundTrip(c)
		vt.Record("roundtrip", a, nontrivial, classes...)
		if err != nil {
			if strings.HasPrefix(err.Error(), "HARNESS") {
				t.Fatalf("%v", err)
			}
			vt.Fail(t, "roundtrip", c, "%v", err)
		}
	})
}

// ---------------------------------------------------------------------------
// sub-check "bytes": totality and termination on arbitrary text

// files that exist next to every generated input; imports can hit them
var sideFiles = map[string]string{
	"a.conf":        "gzip\nlog / stdout\n",
	"b.conf":        "import a.conf\nroot /x\n",
	"blk.conf":      "host1 {\n  gzip\n}\n",
	"inc/one.conf":  "ext .html\n",
	"inc/two.conf":  "header / X y\nimport ../a.conf\n",
	"cyc1.conf":     "import cyc2.conf\n",
	"cyc2.conf":     "errors\nimport cyc1.conf\n",
	"selfi.conf":    "mime .x y\nimport selfi.conf\n",
	"snipcyc.conf":  "(s) {\n import s\n}\n",
	"snip2.conf":    "(a) {\n import b\n}\n(b) {\n import a\n}\n",
	"snip3.conf":    "(p) {\n gzip\n import q\n}\n(q) {\n import r\n}\n(r) {\n header / X y\n import p\n}\n",
	"snipfile.conf": "(m) {\n import cyc1.conf\n}\n",
	"brace.conf":    "}\n",
	"open.conf":     "proxy / x {\n",
	"quote.conf":    "root \"unterminated\n",
}

type bytesCase struct {
	Text string `json:"text"`
}

var soup = []string{
	"{", "}", "\"", "\\", "#", "import", "import ", "(s)", "(s) {", "\n", "\n", " ", "\t", "\r\n", ",", ", ",
	"host", "example.com", ":80", "gzip", "root", "/", "a", "b", "{$VA}", "{$", "{%", "%}", "{$}", "{%VB%}", "}", "{", "{$VUNSET}", "{%VUNSET%}", "{$VC}", "{$VE}", "{%VF%}", "{$VH}", "{$VI}",
	"Casketfile", "a.conf", "b.conf", "blk.conf", "inc/*.conf", "inc/*", "cyc1.conf", "selfi.conf", "snipcyc.conf", "snip2.conf", "snip3.conf", "snipfile.conf", "brace.conf", "import a", "import b", "import p", "import m", "(a) {", "(b) {",
	"open.conf", "quote.conf", "inc", "missing.conf", "*", "*.conf", "?.conf", "[a]*.conf", "s", "\\\"", "\"\"", "\xef\xbb\xbf", "\x00", "\xff",
	"import s", "import Casketfile", "import a.conf", "import cyc1.conf", "import inc/*.conf",
}

func genSoup(t *rapid.T) string {
	if rapid.IntRange(0, 9).Draw(t, "raw") == 0 {
		return string(rapid.SliceOfN(rapid.Byte(), 0, 64).Draw(t, "bytes"))
	}
	parts := rapid.SliceOfN(rapid.SampledFrom(soup), 0, 40).Draw(t, "soup")
	var sb strings.Builder
	for i, p := range parts {
		sb.WriteString(p)
		if i%2 == 0 && rapid.IntRange(0, 2).Draw(t, fmt.Sprintf("sp%d", i)) == 0 {
			sb.WriteString(" ")
		}
	}
	return sb.String()
}

func unsafeImport(text string) bool {
	// harness hygiene: never let a generated import leave the sandbox
	toks := strings.Fields(strings.NewReplacer("\"", " ", "\\", " ").Replace(text))
	for _, tk := range toks {
		if strings.HasPrefix(tk, "/") && len(tk) > 1 || strings.Contains(tk, "..") {
			return true
		}
	}
	return false
}

// runBytes returns (nontrivial, error)
func runBytes(c *bytesCase, hard func(msg string)) (bool, error) {
	files := map[string]string{"Casketfile": c.Text}
	for k, v := range sideFiles {
		files[k] = v
	}
	dir, e := materialise(files)
	if e != nil {
		return false, fmt.Errorf("HARNESS: %v", e)
	}
	defer os.RemoveAll(dir)
	mainPath := filepath.Join(dir, "Casketfile")
	res := parseWatchdog(mainPath, []byte(c.Text), 10*time.Second)
	if res.slow {
		return true, fmt.Errorf("HARNESS: Parse needed more than 10 s on a starved machine: no verdict")
	}
	if res.hung {
		hard("HANG: casketfile.Parse did not return within 10s (parser goroutine still running)")
		return true, fmt.Errorf("HANG")
	}
	if res.pan != nil {
		return true, fmt.Errorf("PANIC in casketfile.Parse: %v\n%s", res.pan, res.stack)
	}
	nontrivial := len(strings.Fields(c.Text)) >= 1
	if res.err != nil {
		m := errLineRe.FindStringSubmatch(res.err.Error())
		if m == nil {
			return nontrivial, fmt.Errorf("error does not name a file and line: %q", res.err.Error())
		}
		f := m[1]
		if f != mainPath {
			if rel, err := filepath.Rel(dir, f); err != nil || strings.HasPrefix(rel, "..") {
				return nontrivial, fmt.Errorf("error names file %q which is neither the input nor an imported file", f)
			} else if _, ok := files[rel]; !ok {
				return nontrivial, fmt.Errorf("error names file %q which does not exist in the case", rel)
			}
		}
		return nontrivial, nil
	}
	// success: every block has keys, every token list starts with its directive name
	for bi, b := range res.blocks {
		if len(b.Keys) == 0 {
			return nontrivial, fmt.Errorf("block %d returned without keys", bi)
		}
		for name, toks := range b.Tokens {
			if len(toks) == 0 {
				return nontrivial, fmt.Errorf("block %d directive %q has no tokens", bi, name)
			}
		}
	}
	return nontrivial, nil
}

func hardFail(sub string, c interface{}) func(string) {
	return func(msg string) {
		p := vt.WriteReplay(sub, c, msg)
		fmt.Printf("C10/%s: %s\nreplay: %s\n", sub, msg, p)
		vt.Flush()
		os.Exit(1)
	}
}

func TestBytes(t *testing.T) {
	if vt.ReplayPath() != "" {
		t.Skip("replay mode")
	}
	rapid.Check(t, func(t *rapid.T) {
		c := &bytesCase{Text: genSoup(t)}
		if unsafeImport(c.Text) {
			vt.Skip("bytes", "import-leaves-sandbox")
			return
		}
		var classes []string
		if strings.Contains(c.Text, "import") {
			classes = append(classes, "has-import")
		}
		if strings.Contains(c.Text, "\"") {
			classes = append(classes, "has-quote")
		}
		nt, err := runBytes(c, hardFail("bytes", c))
		if err == nil {
			classes = append(classes, "handled")
		}
		vt.Record("bytes", c, nt, classes...)
		if err != nil {
			if strings.HasPrefix(err.Error(), "HARNESS") {
				t.Fatalf("%v", err)
			}
			vt.Fail(t, "bytes", c, "%v", err)
		}
	})
}

// hostile constants and the repository's own inputs, always replayed
var constants = []string{
	"import Casketfile", "host\nimport Casketfile\n", "host {\n import Casketfile\n}\n", "import selfi.conf", "host {\nimport cyc1.conf\n}",
	"(s) {\n import s\n}\nhost {\n import s\n}\n", "import snipcyc.conf\nhost {\n import s\n}",
	"(a) {\n import b\n}\n(b) {\n import a\n}\nhost {\n import a\n}\n", "(a) {\n import b\n}\n(b) {\n import c\n}\n(c) {\n import a\n}\nhost {\n import b\n}\n", "import snip2.conf\nhost {\n import a\n}\n", "import snip3.conf\nhost {\n import q\n}\n", "import snipfile.conf\nhost {\n import m\n}\n",
	"(a) {\n gzip\n header / X y\n}\nhost {\n import a\n import a\n}\n",
	"\"", "\"\\", "\\\"", "{", "}", "{ }", "host {", "host }", "host {\n}\n}", "host {\n dir {\n}", "a, ", "a,\n", ",", "import", "import \"\"", "import a b",
	"\xef\xbb\xbf", "\xef\xbb\xbfhost", "host\r\n{\r\n}\r\n", "{$", "{%", "{$}", "{$VA", "host {\n root {$VA}\n}", "host {\n root {$VE}\n}", "host {\n root {%VF%}\n}", "{$VH}.test {\n root {$VI}\n}", "{$VE}", "{$VUNSET}", "{%VUNSET%} {\n}", "{$VUNSET} {\n root /x\n}", "a.test, {$VUNSET} {\n}", "{$VUNSET}, b.test {\n gzip\n}", "{$VC}:80 {\n}", "{$VC} {\n}", "host \"\n\n\" {\n}", "#", "# only comment\n", "host {\n gzip # " + strings.Repeat("c", 4094) + "\n root /x\n}", "host {\n # " + strings.Repeat("word } ", 1200) + "\n root /x\n}", "# " + strings.Repeat("x", 70000) + "\nhost {\n}",
	"(s)", "(s) {", "(s) {\n}\n(s) {\n}\n", "import *", "import inc/*", "import inc", "import [a]*.conf", "import **", "host {\n dir { {\n } }\n}",
	"host {\n dir a {\n  import a.conf\n }\n}", "import blk.conf\nimport blk.conf\n", "host {\n import brace.conf\n}", "host {\n import open.conf\n}", "host {\n import quote.conf\n}",
}

func TestConstants(t *testing.T) {
	if vt.ReplayPath() != "" {
		t.Skip("replay mode")
	}
	for i, s := range constants {
		c := &bytesCase{Text: s}
		nt, err := runBytes(c, hardFail("constants", c))
		vt.Record("constants", c, nt, "constant")
		if err != nil {
			vt.Fail(t, "constants", c, "constant %d %q: %v", i, s, err)
		}
	}
}

// FuzzParse is the native coverage-guided target (thorough tier).
func FuzzParse(f *testing.F) {
	for _, s := range constants {
		f.Add([]byte(s))
	}
	f.Fuzz(func(t *testing.T, data []byte) {
		c := &bytesCase{Text: string(data)}
		if unsafeImport(c.Text) {
			return
		}
		_, err := runBytes(c, func(msg string) {
			panic(msg)
		})
		if err != nil && !strings.HasPrefix(err.Error(), "HARNESS") {
			t.Fatalf("%v", err)
		}
	})
}

// ---------------------------------------------------------------------------
// replay

func replayCase(rf *vt.ReplayFile) error {
	switch rf.Sub {
	case "roundtrip":
		var c rtCase
		if err := vt.Decode(rf, &c); err != nil {
			return err
		}
		return runRoundTrip(&c)
	case "bytes", "constants", "fuzz":
		var c bytesCase
		if err := vt.Decode(rf, &c); err != nil {
			return err
		}
		_, err := runBytes(&c, func(msg string) { fmt.Println(msg); os.Exit(1) })
		return err
	}
	return fmt.Errorf("HARNESS: unknown sub %q", rf.Sub)
}

func TestReplay(t *testing.T) { vt.RunReplay(t, replayCase) }
func TestCorpus(t *testing.T) { vt.RunCorpus(t, replayCase) }

// fixed regression cases for the round trip (findings fixed in casket; see known_findings.json)
var rtConstants = []rtCase{
	{Variants: []Case{
		{Layout: "plain", Main: "Casketfile", Files: map[string]string{"Casketfile": "site {\n header /x {\n  Y z\n }\n header / X-A b\n}\n"},
			Expect: []ExpBlock{{Keys: []string{"site"}, Dirs: []ExpDir{{Name: "header", Toks: []ExpTok{
				{"header", "Casketfile", true}, {"/x", "Casketfile", false}, {"{", "Casketfile", false}, {"Y", "Casketfile", true}, {"z", "Casketfile", false}, {"}", "Casketfile", true},
				{"header", "Casketfile", true}, {"/", "Casketfile", false}, {"X-A", "Casketfile", false}, {"b", "Casketfile", false}}}}}}},
		{Layout: "snippet-defined-before-use", Main: "Casketfile", Files: map[string]string{"Casketfile": "(hdr) {\n header / X-A b\n}\nsite {\n header /x {\n  Y z\n }\n import hdr\n}\n"},
			Expect: []ExpBlock{{Keys: []string{"site"}, Dirs: []ExpDir{{Name: "header", Toks: []ExpTok{
				{"header", "Casketfile", true}, {"/x", "Casketfile", false}, {"{", "Casketfile", false}, {"Y", "Casketfile", true}, {"z", "Casketfile", false}, {"}", "Casketfile", true},
				{"header", "Casketfile", true}, {"/", "Casketfile", false}, {"X-A", "Casketfile", false}, {"b", "Casketfile", false}}}}}}},
		{Layout: "one-line-snippet-imported-twice", Main: "Casketfile", Files: map[string]string{"Casketfile": "(a) {\n header / X y\n}\nsite {\n import a\n import a\n}\n"},
			Expect: []ExpBlock{{Keys: []string{"site"}, Dirs: []ExpDir{{Name: "header", Toks: []ExpTok{
				{"header", "Casketfile", true}, {"/", "Casketfile", false}, {"X", "Casketfile", false}, {"y", "Casketfile", false},
				{"header", "Casketfile", true}, {"/", "Casketfile", false}, {"X", "Casketfile", false}, {"y", "Casketfile", false}}}}}}},
	}},
}

func TestRoundTripConstants(t *testing.T) {
	if vt.ReplayPath() != "" {
		t.Skip("replay mode")
	}
	for i := range rtConstants {
		c := &rtConstants[i]
		// variants here are independent layouts, not the same walk: check each alone
		for vi := range c.Variants {
			one := &rtCase{Variants: []Case{c.Variants[vi]}}
			err := runRoundTrip(one)
			vt.Record("constants", one, true, "roundtrip-constant")
			if err != nil {
				vt.Fail(t, "roundtrip", one, "constant %d/%d: %v", i, vi, err)
			}
		}
	}
}
