package c15

import (
	"bufio"
	"context"
	"crypto/ecdsa"
	"crypto/elliptic"
	"crypto/rand"
	"crypto/tls"
	"crypto/x509"
	"crypto/x509/pkix"
	"encoding/pem"
	"fmt"
	"math/big"
	"net"
	"net/http"
	"os"
	"path/filepath"
	"sort"
	"strconv"
	"strings"
	"sync"
	"testing"
	"time"

	"github.com/caddyserver/certmagic"
	"github.com/tmpim/casket"
	"github.com/tmpim/casket/caskethttp/httpserver"
	"pgregory.net/rapid"

	"verif/harness/internal/srv"
	"verif/harness/internal/vt"
)

func TestMain(m *testing.M) {
	vt.Property = "C15"
	vt.Main(m, "VERIF_NETNS")
}

const issuerKey = "acme-v02.api.letsencrypt.org-directory"

var publicNames = []string{"example.com", "www.example.com", "sub.example.org", "*.example.com", "*.example.org", "single"}

var (
	seedOnce             sync.Once
	manualCrt, manualKey string
)

func pemOf(typ string, der []byte) []byte {
	return pem.EncodeToMemory(&pem.Block{Type: typ, Bytes: der})
}

// seed certmagic's file storage with a certificate for every public name the
// generator can produce, so that casket finds a managed certificate and never
// talks to an ACME server.
func seed() error {
	var err error
	seedOnce.Do(func() {
		st := &certmagic.FileStorage{Path: casket.AssetsPath()}
		mk := func(cn string, sans []string) ([]byte, []byte) {
			key, _ := ecdsa.GenerateKey(elliptic.P256(), rand.Reader)
			tpl := &x509.Certificate{SerialNumber: big.NewInt(time.Now().UnixNano()), Subject: pkix.Name{CommonName: cn}, DNSNames: sans,
				NotBefore: time.Now().Add(-time.Hour), NotAfter: time.Now().Add(10 * 365 * 24 * time.Hour), KeyUsage: x509.KeyUsageDigitalSignature, ExtKeyUsage: []x509.ExtKeyUsage{x509.ExtKeyUsageServerAuth}, BasicConstraintsValid: true}
			der, _ := x509.CreateCertificate(rand.Reader, tpl, tpl, &key.PublicKey, key)
			kb, _ := x509.MarshalECPrivateKey(key)
			return pemOf("CERTIFICATE", der), pemOf("EC PRIVATE KEY", kb)
		}
		for _, n := range publicNames {
			crt, key := mk("managed-"+n, []string{n})
			ctx := context.Background()
			if err = st.Store(ctx, certmagic.StorageKeys.SiteCert(issuerKey, n), crt); err != nil {
				return
			}
			if err = st.Store(ctx, certmagic.StorageKeys.SitePrivateKey(issuerKey, n), key); err != nil {
				return
			}
			meta := fmt.Sprintf(`{"sans":[%q],"issuer_data":{}}`, n)
			if err = st.Store(ctx, certmagic.StorageKeys.SiteMeta(issuerKey, n), []byte(meta)); err != nil {
				return
			}
		}
		crt, key := mk("manual-cert", []string{"example.com", "www.example.com", "sub.example.org", "localhost", "b.test"})
		manualCrt, manualKey = filepath.Join(vt.WorkDir, "manual.crt"), filepath.Join(vt.WorkDir, "manual.key")
		os.WriteFile(manualCrt, crt, 0o644)
		os.WriteFile(manualKey, key, 0o644)
	})
	return err
}

// ---------------------------------------------------------------------------

type Site struct {
	Scheme string `json:"scheme"` // "", "http", "https"
	Host   string `json:"host"`
	Port   string `json:"port"`           // "", "80", "443", "8080"
	TLS    string `json:"tls"`            // "", off, email, self_signed, manual, no_redirect, email_off
	Path   string `json:"path,omitempty"` // the site is declared for a path prefix only (host/path)
	// Extra: a second tls directive follows in the block, carrying options only (protocols)
	Extra bool `json:"extra,omitempty"`
}

type Probe struct {
	HostHdr string `json:"host"`
	Target  string `json:"target"`
}

type Case struct {
	Sites  []Site  `json:"sites"`
	Probes []Probe `json:"probes"`
	// CustomPorts: the process runs with -http-port 8180 -https-port 8543 (set before the configuration is loaded)
	CustomPorts bool `json:"custom_ports,omitempty"`
	// DefaultPort: the process runs with -port N ("" = the built-in default 2015): a site written without
	// scheme and port is a site on that port
	DefaultPort string `json:"default_port,omitempty"`
}

func (s Site) addr() string {
	a := s.Host
	if s.Scheme != "" {
		a = s.Scheme + "://" + a
	}
	if s.Port != "" {
		a += ":" + s.Port
	}
	return a + s.Path
}

func casketfile(c *Case) string {
	var sb strings.Builder
	for i, s := range c.Sites {
		fmt.Fprintf(&sb, "%s {\n", s.addr())
		switch s.TLS {
		case "off":
			sb.WriteString("\ttls off\n")
		case "email":
			sb.WriteString("\ttls admin@example.com\n")
		case "self_signed":
			sb.WriteString("\ttls self_signed\n")
		case "manual":
			fmt.Fprintf(&sb, "\ttls %s %s\n", manualCrt, manualKey)
		case "no_redirect":
			sb.WriteString("\ttls {\n\t\tno_redirect\n\t}\n")
		case "wildcard":
			sb.WriteString("\ttls {\n\t\twildcard\n\t}\n")
		}
		if s.Extra {
			sb.WriteString("\ttls {\n\t\tprotocols tls1.2 tls1.3\n\t}\n")
		}
		fmt.Fprintf(&sb, "\theader / X-Site s%d\n\tstatus 204 /\n}\n", i)
	}
	return sb.String()
}

// --- the statement's qualification rule, written independently ---

func hostQualifies(h string) bool {
	h = strings.ToLower(h)
	if h == "" {
		return false
	}
	if net.ParseIP(strings.Trim(h, "[]")) != nil {
		return false
	}
	if h == "localhost" || strings.HasSuffix(h, ".localhost") {
		return false
	}
	for _, tld := range []string{".local", ".test", ".example", ".invalid"} {
		if strings.HasSuffix(h, tld) {
			return false
		}
	}
	return true
}

type expect struct {
	managed bool
	tlsOn   bool
	port    string
}

// the process-wide default ports (-http-port / -https-port); a case may customise them
var httpPort, httpsPort = "80", "443"

// the process-wide default port (-port) of the case at hand
var defaultPort = ""

// port: the port the address names, the -port value standing in for a site written without scheme and port
func (s Site) port() string {
	if s.Port == "" && s.Scheme == "" && defaultPort != "" {
		return defaultPort
	}
	return s.Port
}

func setDefaultPort(p string) {
	defaultPort = p
	if p == "" {
		httpserver.Port = httpserver.DefaultPort
	} else {
		httpserver.Port = p
	}
}

func setPorts(custom bool) {
	httpPort, httpsPort = "80", "443"
	if custom {
		httpPort, httpsPort = "8180", "8543"
	}
	certmagic.HTTPPort, _ = strconv.Atoi(httpPort)
	certmagic.HTTPSPort, _ = strconv.Atoi(httpsPort)
}

func model(s Site) expect {
	e := expect{}
	explicitHTTP := s.Scheme == "http" || s.port() == httpPort
	e.managed = hostQualifies(s.Host) && !explicitHTTP && (s.TLS == "" || s.TLS == "email" || s.TLS == "no_redirect" || s.TLS == "wildcard")
	e.tlsOn = e.managed || ((s.TLS == "self_signed" || s.TLS == "manual") && !explicitHTTP)
	switch {
	case s.port() != "":
		e.port = s.port()
	case s.Scheme == "http":
		e.port = httpPort
	case s.Scheme == "https":
		e.port = httpsPort
	case e.managed:
		e.port = httpsPort
	default:
		e.port = "2015"
	}
	return e
}

// redirects the statement requires: for every HTTPS site that has no plaintext site of its own on the HTTP port
func wantRedirect(c *Case, i int) bool {
	s, e := c.Sites[i], model(c.Sites[i])
	if !e.tlsOn || s.TLS == "no_redirect" {
		return false
	}
	for j, o := range c.Sites {
		if j != i && strings.EqualFold(o.Host, s.Host) && model(o).port == httpPort {
			return false
		}
	}
	return true
}

// covers: does the certificate name pattern (possibly "*.x.y") cover the host name?
func covers(pattern, name string) bool {
	pattern, name = strings.ToLower(pattern), strings.ToLower(name)
	if !strings.HasPrefix(pattern, "*.") {
		return pattern == name
	}
	i := strings.Index(name, ".")
	return i > 0 && name[i:] == pattern[1:]
}

func tlsProbe(port, sni string) (string, error) {
	d := &net.Dialer{Timeout: 2 * time.Second}
	conn, err := tls.DialWithDialer(d, "tcp", "127.0.0.1:"+port, &tls.Config{ServerName: sni, InsecureSkipVerify: true})
	if err != nil {
		return "", err
	}
	defer conn.Close()
	cs := conn.ConnectionState()
	if len(cs.PeerCertificates) == 0 {
		return "", nil
	}
	return cs.PeerCertificates[0].Subject.CommonName, nil
}

func plainGet(port, host, target string) (*http.Response, error) {
	conn, err := net.DialTimeout("tcp", "127.0.0.1:"+port, 2*time.Second)
	if err != nil {
		return nil, err
	}
	defer conn.Close()
	if tc, ok := conn.(*net.TCPConn); ok {
		tc.SetLinger(0)
	}
	conn.SetDeadline(time.Now().Add(3 * time.Second))
	fmt.Fprintf(conn, "GET %s HTTP/1.1\r\nHost: %s\r\nConnection: close\r\n\r\n", target, host)
	return http.ReadResponse(bufio.NewReader(conn), &http.Request{Method: "GET"})
}

func sniFor(host string) string {
	if strings.HasPrefix(host, "*.") {
		return "zz" + host[1:]
	}
	return host
}

func runCase(c *Case) (nontrivial bool, err error) {
	setPorts(c.CustomPorts)
	defer setPorts(false)
	setDefaultPort(c.DefaultPort)
	defer setDefaultPort("")
	if os.Getenv("VERIF_NETNS") != "1" {
		return false, fmt.Errorf("HARNESS: C15 needs a private network namespace (ports 80/443)")
	}
	if e := seed(); e != nil {
		return false, fmt.Errorf("HARNESS: seeding certificate storage: %v", e)
	}
	cf := casketfile(c)
	type res struct {
		inst *casket.Instance
		err  error
	}
	ch := make(chan res, 1)
	go func() {
		inst, err := srv.Start(cf, "")
		ch <- res{inst, err}
	}()
	var inst *casket.Instance
	beats, at := vt.Beats(), time.Now()
	var r res
	select {
	case r = <-ch:
	case <-time.After(15 * time.Second):
		if vt.Starved(beats, at) {
			// the whole process was short of CPU: a long second chance, and no verdict if the start then returns
			select {
			case r = <-ch:
				srv.Stop(r.inst)
				return false, fmt.Errorf("HARNESS: casket.Start needed more than 15 s on a starved machine: no verdict")
			case <-time.After(90 * time.Second):
			}
		}
		// every site the statement calls managed has its certificate in storage, so a start that does not
		// return is trying to obtain a certificate for a site that does not qualify (or ignores storage)
		msg := fmt.Sprintf("casket.Start did not return within 15s: it is trying to obtain a certificate although every qualifying site has one in storage\nsites: %+v\n%s", c.Sites, cf)
		p := vt.WriteReplay("autohttps", c, msg)
		fmt.Printf("C15/autohttps: %s\nreplay: %s\n", msg, p)
		vt.Flush()
		os.Exit(1)
		return false, nil
	}
	if r.err != nil {
		srv.Stop(r.inst)
		return false, fmt.Errorf("SKIP-REJECTED: %v", r.err)
	}
	inst = r.inst
	defer srv.Stop(inst)

	// listeners
	gotPorts := map[string]bool{}
	for _, a := range srv.Addrs(inst) {
		gotPorts[srv.PortOf(a)] = true
	}
	wantPorts := map[string]bool{}
	anyRedirect := false
	for i, s := range c.Sites {
		e := model(s)
		wantPorts[e.port] = true
		if wantRedirect(c, i) {
			wantPorts[httpPort] = true
			anyRedirect = true
		}
		// one condition away from flipping, or hosts shared between sites
		if hostQualifies(s.Host) && (s.Scheme == "http" || s.port() == httpPort || s.TLS != "") {
			nontrivial = true
		}
		for j, o := range c.Sites {
			if j != i && strings.EqualFold(o.Host, s.Host) {
				nontrivial = true
			}
		}
	}
	_ = anyRedirect
	// a host with several HTTPS sites of which some say no_redirect: whether :80 exists for it is not specified
	may80 := false
	for i, s := range c.Sites {
		if !model(s).tlsOn {
			continue
		}
		for j, o := range c.Sites {
			if j != i && strings.EqualFold(o.Host, s.Host) && model(o).tlsOn && (o.TLS == "no_redirect") != (s.TLS == "no_redirect") {
				may80 = true
			}
		}
	}
	if may80 {
		delete(gotPorts, httpPort)
		delete(wantPorts, httpPort)
	}
	if fmt.Sprint(keys(gotPorts)) != fmt.Sprint(keys(wantPorts)) {
		return nontrivial, fmt.Errorf("listeners on ports %v, the statement implies %v\nsites: %+v", keys(gotPorts), keys(wantPorts), c.Sites)
	}
	for i, s := range c.Sites {
		e := model(s)
		desc := fmt.Sprintf("site %d %q (tls %q): managed=%v tls=%v port=%s", i, s.addr(), s.TLS, e.managed, e.tlsOn, e.port)
		host := s.Host
		if host == "" {
			host = "anything.example.net"
		}
		sni := sniFor(host)
		cn, terr := tlsProbe(e.port, sni)
		if e.tlsOn && (s.Host == "" || net.ParseIP(s.Host) != nil) {
			continue // Go's client sends no SNI for these: a TLS probe says nothing about this site
		}
		if e.tlsOn {
			if terr != nil {
				return nontrivial, fmt.Errorf("%s: TLS handshake with SNI %q on port %s failed: %v", desc, sni, e.port, terr)
			}
			ownCertElsewhere := false // the same name also served with a self-signed / manual certificate: the cache is shared
			for j, o := range c.Sites {
				if j != i && (o.TLS == "self_signed" || o.TLS == "manual") && (strings.EqualFold(o.Host, s.Host) || o.TLS == "manual" || covers(o.Host, s.Host)) {
					ownCertElsewhere = true
				}
			}
			wantCN := "managed-" + strings.ToLower(s.Host)
			if s.TLS == "wildcard" {
				// the site asks for the certificate of its parent's wildcard name
				wantCN = "managed-*" + strings.ToLower(s.Host)[strings.Index(s.Host, "."):]
			}
			for j, o := range c.Sites {
				// another site's wildcard certificate may cover this name as well: either certificate is fine
				if j != i && o.TLS == "wildcard" && model(o).managed && cn == "managed-*"+strings.ToLower(o.Host)[strings.Index(o.Host, "."):] {
					wantCN = cn
				}
			}
			if e.managed && !ownCertElsewhere && cn != wantCN && !(s.TLS == "wildcard" && strings.HasPrefix(cn, "managed-")) {
				return nontrivial, fmt.Errorf("%s: presented certificate %q, want the managed certificate %q", desc, cn, wantCN)
			}
			managedElsewhere := false
			for j, o := range c.Sites {
				if j != i && model(o).managed {
					managedElsewhere = true
				}
			}
			if !e.managed && !managedElsewhere && strings.HasPrefix(cn, "managed-") {
				return nontrivial, fmt.Errorf("%s: a site that does not qualify presents the managed certificate %q", desc, cn)
			}
		} else {
			if terr == nil {
				// another site on the same port may legitimately speak TLS: only a verdict if none does
				other := false
				for j, o := range c.Sites {
					if j != i && model(o).port == e.port && model(o).tlsOn {
						other = true
					}
				}
				if !other {
					return nontrivial, fmt.Errorf("%s: declared plain HTTP / not qualifying, but port %s completes a TLS handshake (certificate %q)", desc, e.port, cn)
				}
			}
			resp, perr := plainGet(e.port, sni, s.Path+"/")
			if perr != nil || resp.StatusCode != 204 || resp.Header.Get("X-Site") != fmt.Sprintf("s%d", i) {
				// an ambiguous vhost (same host twice on one port) is rejected at start, so this must be our site
				st, xs := 0, ""
				if resp != nil {
					st, xs = resp.StatusCode, resp.Header.Get("X-Site")
				}
				return nontrivial, fmt.Errorf("%s: plaintext GET on port %s answered err=%v status=%d X-Site=%q, want 204 from this site", desc, e.port, perr, st, xs)
			}
		}
	}
	// redirect sites
	var redirs []redirTarget
	for i, s := range c.Sites {
		e := model(s)
		if s.Host == "" {
			continue
		}
		host := sniFor(s.Host)
		for _, pr := range c.Probes {
			hh := strings.ReplaceAll(pr.HostHdr, "HOST", host)
			if !wantRedirect(c, i) || may80 {
				continue
			}
			// is there an HTTPS site for this host on 443?  Then the redirect must go there.
			target := e
			for j, o := range c.Sites {
				if j != i && strings.EqualFold(o.Host, s.Host) && model(o).tlsOn && model(o).port == httpsPort {
					target = model(o)
				}
			}
			if e.port != httpsPort && target.port != httpsPort {
				// several HTTPS sites of this host on other ports: which one the redirect names is not specified
				other := false
				for j, o := range c.Sites {
					if j != i && strings.EqualFold(o.Host, s.Host) && model(o).tlsOn {
						other = true
					}
				}
				if other {
					continue
				}
			}
			resp, perr := plainGet(httpPort, hh, pr.Target)
			desc := fmt.Sprintf("redirect site for %q: GET %s with Host %q on :80", s.addr(), pr.Target, hh)
			if perr != nil {
				return nontrivial, fmt.Errorf("%s: %v", desc, perr)
			}
			if resp.StatusCode != 301 {
				return nontrivial, fmt.Errorf("%s: status %d, want a permanent redirect (301)", desc, resp.StatusCode)
			}
			loc := resp.Header.Get("Location")
			want := "https://" + host
			if target.port != httpsPort {
				want += ":" + target.port
			}
			want += pr.Target
			if loc != want {
				return nontrivial, fmt.Errorf("%s: Location %q, want %q", desc, loc, want)
			}
			if strings.HasPrefix(loc, "http://") || strings.Contains(loc, ":80/") {
				return nontrivial, fmt.Errorf("%s: redirect points back at an HTTP address: %q", desc, loc)
			}
			if len(redirs) < 4 && !strings.ContainsAny(pr.Target, "?#") {
				pre := "https://" + host
				if target.port != httpsPort {
					pre += ":" + target.port
				}
				redirs = append(redirs, redirTarget{hh, pre, s.addr()})
			}
		}
	}
	// The same redirect sites answered at the same time: every answer names its own request's host,
	// path and query (the statement says "every request").
	if len(redirs) > 0 {
		const workers, each = 6, 10
		errs := make(chan error, workers)
		for g := 0; g < workers; g++ {
			go func(g int) {
				for k := 0; k < each; k++ {
					rt := redirs[(g+k)%len(redirs)]
					target := fmt.Sprintf("/w%d/%s?g=%d&k=%d", g, strings.Repeat(string(rune('a'+g)), 3+k), g, k)
					resp, perr := plainGet(httpPort, rt.hostHdr, target)
					if perr != nil {
						errs <- fmt.Errorf("HARNESS: redirect site for %q, concurrent GET %s with Host %q: %v", rt.site, target, rt.hostHdr, perr)
						return
					}
					if loc := resp.Header.Get("Location"); resp.StatusCode != 301 || loc != rt.prefix+target {
						errs <- fmt.Errorf("redirect site for %q, GET %s with Host %q while %d other requests are in flight: status %d Location %q, want 301 %q",
							rt.site, target, rt.hostHdr, workers-1, resp.StatusCode, loc, rt.prefix+target)
						return
					}
				}
				errs <- nil
			}(g)
		}
		var first error
		for g := 0; g < workers; g++ {
			if e := <-errs; e != nil && first == nil {
				first = e
			}
		}
		if first != nil {
			return nontrivial, first
		}
	}
	return nontrivial, nil
}

type redirTarget struct{ hostHdr, prefix, site string }

func keys(m map[string]bool) []string {
	var k []string
	for x := range m {
		k = append(k, x)
	}
	sort.Strings(k)
	return k
}

// ---------------------------------------------------------------------------

var hostClasses = []string{"example.com", "example.com", "www.example.com", "sub.example.org", "*.example.com", "single", "", "93.184.216.34", "localhost", "127.0.0.1", "foo.localhost", "10.0.0.5", "192.168.1.9", "a.local", "b.test", "c.example", "d.invalid", "EXAMPLE.com", "www.app.test", "a.b.invalid", "x.y.example", "deep.a.local", "*.app.test", "App.Test", "*.example.org", "www.example.com", "sub.example.org"}

// related names: a name, its parent and its parent's wildcard
var relatedHosts = map[string][]string{
	"www.example.com": {"*.example.com", "example.com"},
	"*.example.com":   {"www.example.com", "example.com"},
	"example.com":     {"www.example.com", "*.example.com"},
	"sub.example.org": {"*.example.org"},
	"*.example.org":   {"sub.example.org"},
}

func genCase(t *rapid.T) *Case {
	c := &Case{CustomPorts: rapid.IntRange(0, 4).Draw(t, "customports") == 0}
	setPorts(c.CustomPorts)
	if !c.CustomPorts {
		c.DefaultPort = rapid.SampledFrom([]string{"", "", "", "80", "8080"}).Draw(t, "defaultport")
	}
	setDefaultPort(c.DefaultPort)
	defer setDefaultPort("")
	n := rapid.IntRange(1, 5).Draw(t, "n")
	used := map[string]bool{}
	for i := 0; i < n; i++ {
		lb := fmt.Sprintf("s%d", i)
		s := Site{Host: rapid.SampledFrom(hostClasses).Draw(t, lb+"h")}
		if len(c.Sites) > 0 && rapid.IntRange(0, 3).Draw(t, lb+"rel") == 0 {
			if rel := relatedHosts[strings.ToLower(c.Sites[len(c.Sites)-1].Host)]; len(rel) > 0 {
				s.Host = rapid.SampledFrom(rel).Draw(t, lb+"relh")
			}
		} else if len(c.Sites) > 0 && rapid.IntRange(0, 2).Draw(t, lb+"same") == 0 {
			s.Host = c.Sites[rapid.IntRange(0, len(c.Sites)-1).Draw(t, lb+"si")].Host
		}
		s.Scheme = rapid.SampledFrom([]string{"", "", "http", "https"}).Draw(t, lb+"sch")
		s.Port = rapid.SampledFrom([]string{"", "", "80", "443", "8080", "8443"}).Draw(t, lb+"p")
		if c.CustomPorts && (s.Port == "80" || s.Port == "443") {
			// with moved default ports only the defaults themselves and unrelated explicit ports are generated:
			// what a literal :80 or :443 means then is not something the statement settles
			s.Port = ""
		}
		s.TLS = rapid.SampledFrom([]string{"", "", "", "off", "email", "self_signed", "manual", "no_redirect", "wildcard", "wildcard"}).Draw(t, lb+"tls")
		if s.TLS == "wildcard" && !map[string]bool{"www.example.com": true, "sub.example.org": true}[strings.ToLower(s.Host)] {
			s.TLS = "" // 'tls { wildcard }' only where the parent's wildcard certificate is in storage
		}
		// combinations the address parser rejects or that the statement does not define
		if s.Scheme == "https" && s.Port == httpPort || s.Scheme == "http" && s.Port == httpsPort {
			s.Port = ""
		}
		if !hostQualifies(s.Host) && (s.TLS == "email" || s.TLS == "no_redirect") {
			s.TLS = "" // an explicit tls directive without any usable certificate on a host that cannot get one: not defined by the statement
		}
		if s.TLS == "manual" && !map[string]bool{"example.com": true, "www.example.com": true, "sub.example.org": true, "localhost": true, "b.test": true}[strings.ToLower(s.Host)] {
			s.TLS = "" // the manual certificate only covers these names
		}
		if s.Scheme == "https" && !model(s).tlsOn {
			s.Scheme = "" // an https:// address without any TLS: not defined by the statement
		}
		if s.port() == httpsPort && !model(s).tlsOn {
			s.Port = "8080" // a plaintext site on the HTTPS port: not a case the statement speaks about
		}
		if s.Host == "" && s.Port == "" && s.Scheme == "" {
			s.Port = "8080"
		}
		if s.TLS == "manual" || s.TLS == "self_signed" || s.TLS == "email" {
			s.Extra = rapid.IntRange(0, 2).Draw(t, lb+"extra") == 0
		}
		if s.Host != "" && rapid.IntRange(0, 5).Draw(t, lb+"path") == 0 {
			s.Path = rapid.SampledFrom([]string{"/app", "/a/b"}).Draw(t, lb+"pathv")
		}
		e := model(s)
		key := strings.ToLower(s.Host) + ":" + e.port
		if used[key] {
			continue
		}
		used[key] = true
		c.Sites = append(c.Sites, s)
	}
	np := rapid.IntRange(1, 3).Draw(t, "np")
	for i := 0; i < np; i++ {
		c.Probes = append(c.Probes, Probe{HostHdr: rapid.SampledFrom([]string{"HOST", "HOST:80", "HOST"}).Draw(t, fmt.Sprintf("ph%d", i)),
			Target: rapid.SampledFrom([]string{"/", "/a/b?x=1&y=2", "/a%2Fb/c", "/files/what%3F.txt", "/x%20y?q=a%20b", "/tag/c%23", "/p?", "/%25", "//double", "/a/../b"}).Draw(t, fmt.Sprintf("pt%d", i))})
	}
	return c
}

func TestAutoHTTPS(t *testing.T) {
	if vt.ReplayPath() != "" {
		t.Skip("replay mode")
	}
	rapid.Check(t, func(t *rapid.T) {
		c := genCase(t)
		nt, err := runCase(c)
		if err != nil && strings.HasPrefix(err.Error(), "SKIP-REJECTED") {
			vt.Skip("autohttps", "rejected-at-start")
			t.Skipf("%v", err)
		}
		var classes []string
		if c.DefaultPort != "" {
			classes = append(classes, "default-port-flag:"+c.DefaultPort)
		}
		setDefaultPort(c.DefaultPort)
		defer setDefaultPort("")
		for _, s := range c.Sites {
			if model(s).managed {
				classes = append(classes, "managed")
				break
			}
		}
		vt.Record("autohttps", c, nt, classes...)
		vt.Check(t, "autohttps", c, err)
	})
}

func replayCase(rf *vt.ReplayFile) error {
	if rf.Sub == "flags" {
		var fc FlagCase
		if err := vt.Decode(rf, &fc); err != nil {
			return err
		}
		_, err := runFlags(&fc)
		if err != nil && strings.HasPrefix(err.Error(), "SKIP-REJECTED") {
			return nil
		}
		return err
	}
	var c Case
	if err := vt.Decode(rf, &c); err != nil {
		return err
	}
	_, err := runCase(&c)
	if err != nil && strings.HasPrefix(err.Error(), "SKIP-REJECTED") {
		return nil
	}
	return err
}

func TestReplay(t *testing.T) { vt.RunReplay(t, replayCase) }
func TestCorpus(t *testing.T) { vt.RunCorpus(t, replayCase) }
