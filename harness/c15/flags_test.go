package c15

import (
	"fmt"
	"strings"
	"testing"

	"github.com/tmpim/casket"
	cfile "github.com/tmpim/casket/casketfile"
	"github.com/tmpim/casket/caskethttp/httpserver"
	"github.com/tmpim/casket/caskettls"
	"pgregory.net/rapid"

	"verif/harness/internal/vt"
)

// flags: the qualification rule on the per-site TLS flags, right after the real address parsing and the
// real tls directive setup (the statement's "pure stages").  A real start shows a wrongly managed site
// only through side effects (certificates, redirects); flags that on-demand TLS keeps from having any
// immediate effect are only visible here.

type FlagCase struct {
	Scheme string `json:"scheme"`
	Host   string `json:"host"`
	Port   string `json:"port"`
	// TLS: "" (no directive) | off | email | email_off | self_signed | no_redirect
	TLS string `json:"tls"`
	// OnDemand: the tls block also carries an on-demand subdirective ("" | max_certs | ask)
	OnDemand string `json:"on_demand,omitempty"`
	// Extra: a second tls directive with options only follows the first
	Extra bool `json:"extra,omitempty"`
}

func (c *FlagCase) directive() string {
	arg := map[string]string{"off": " off", "email": " admin@example.com", "email_off": " off", "self_signed": " self_signed", "manual": " " + manualCrt + " " + manualKey}[c.TLS]
	var sub []string
	if c.TLS == "no_redirect" {
		sub = append(sub, "no_redirect")
	}
	switch c.OnDemand {
	case "max_certs":
		sub = append(sub, "max_certs 5")
	case "ask":
		sub = append(sub, "ask http://127.0.0.1:9/ok")
	}
	if c.TLS == "" && len(sub) == 0 {
		return ""
	}
	d := "tls" + arg
	if len(sub) > 0 {
		d += " {\n\t" + strings.Join(sub, "\n\t") + "\n}"
	}
	if c.Extra {
		d += "\ntls {\n\tprotocols tls1.2 tls1.3\n}"
	}
	return d
}

func runFlags(c *FlagCase) (bool, error) {
	setPorts(false)
	s := Site{Scheme: c.Scheme, Host: c.Host, Port: c.Port}
	key := s.addr()
	ctl := casket.NewTestController("http", c.directive())
	ctl.Key = key
	if _, err := ctl.Context().InspectServerBlocks("Testfile", []cfile.ServerBlock{{Keys: []string{key}}}); err != nil {
		return false, fmt.Errorf("SKIP-REJECTED: %v", err)
	}
	if c.directive() != "" {
		if e := seed(); e != nil {
			return false, fmt.Errorf("HARNESS: seeding certificate storage: %v", e)
		}
		setup, err := casket.DirectiveAction("http", "tls")
		if err != nil {
			return false, fmt.Errorf("HARNESS: %v", err)
		}
		if err := setup(ctl); err != nil {
			return false, fmt.Errorf("SKIP-REJECTED: tls setup: %v", err)
		}
	}
	cfg := httpserver.GetConfig(ctl)
	// the composition markQualifiedForAutoHTTPS makes of the exported predicates
	got := !casket.IsLoopback(cfg.Addr.Host) && !casket.IsInternal(cfg.Addr.Host) && caskettls.QualifiesForManagedTLS(cfg) && cfg.Addr.Scheme != "http"
	explicitHTTP := c.Scheme == "http" || c.Port == "80"
	want := hostQualifies(c.Host) && !explicitHTTP && (c.TLS == "" || c.TLS == "email" || c.TLS == "no_redirect")
	if got != want {
		return true, fmt.Errorf("site %q with directive %q: qualifies for managed HTTPS = %v, the statement's rule says %v (flags: Manual=%v SelfSigned=%v on-demand=%v)", key, c.directive(), got, want, cfg.TLS.Manual, cfg.TLS.SelfSigned, cfg.TLS.Manager != nil && cfg.TLS.Manager.OnDemand != nil)
	}
	return c.OnDemand != "" || c.TLS != "", nil
}

func TestFlags(t *testing.T) {
	if vt.ReplayPath() != "" {
		t.Skip("replay mode")
	}
	rapid.Check(t, func(t *rapid.T) {
		c := &FlagCase{
			Scheme: rapid.SampledFrom([]string{"", "", "http", "https"}).Draw(t, "scheme"),
			Host:   rapid.SampledFrom(hostClasses).Draw(t, "host"),
			Port:   rapid.SampledFrom([]string{"", "", "80", "443", "8080", "8443"}).Draw(t, "port"),
			TLS:    rapid.SampledFrom([]string{"", "", "off", "email", "email_off", "self_signed", "self_signed", "no_redirect", "manual"}).Draw(t, "tls"),
		}
		if c.TLS == "manual" || c.TLS == "self_signed" || c.TLS == "email" {
			c.Extra = rapid.Bool().Draw(t, "extra")
		}
		// manual + on-demand is the combination the code singles out on purpose ("user might provide own cert and
		// key" next to on-demand issuance): left out, like on-demand on hosts that cannot be judged at start
		if c.TLS != "off" && c.TLS != "email_off" && c.TLS != "manual" {
			c.OnDemand = rapid.SampledFrom([]string{"", "", "max_certs", "ask"}).Draw(t, "od")
		}
		if !hostQualifies(c.Host) {
			// on-demand TLS is documented to admit host names that cannot be checked at start (empty, wildcard-like);
			// the statement's host rule does not speak about it, so it is only combined with hosts that qualify anyway
			c.OnDemand = ""
		}
		if c.Scheme == "https" && c.Port == "80" || c.Scheme == "http" && c.Port == "443" {
			c.Port = ""
		}
		nt, err := runFlags(c)
		if err != nil && strings.HasPrefix(err.Error(), "SKIP-REJECTED") {
			vt.Skip("flags", "rejected")
			t.Skipf("%v", err)
		}
		vt.Record("flags", c, nt, "tls="+c.TLS, "ondemand="+c.OnDemand)
		vt.Check(t, "flags", c, err)
	})
}
