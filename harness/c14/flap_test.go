package c14

import (
	"fmt"
	"net/http"
	"net/http/httptest"
	"reflect"
	"strings"
	"sync/atomic"
	"testing"
	"time"

	"github.com/tmpim/casket/casketfile"
	"github.com/tmpim/casket/caskethttp/httpserver"
	"github.com/tmpim/casket/caskethttp/proxy"
	"pgregory.net/rapid"

	"verif/harness/internal/vt"
)

// health-flap: failures recorded through proxied requests while the health
// checker sees the backend go away and come back. The recovery must not wipe
// or double-expire the recorded failures: the count is never negative, a
// failure stays counted until its fail_timeout is over, and it ends at zero.

type flapCase struct {
	TimeoutMs int `json:"fail_timeout_ms"`
	MaxFails  int `json:"max_fails"`
	Failures  int `json:"failures"` // proxied requests that fail before the flap
	Flaps     int `json:"flaps"`
}

func runFlap(c *flapCase) (bool, error) {
	T := time.Duration(c.TimeoutMs) * time.Millisecond
	var healthy int32 = 1
	backend := httptest.NewServer(http.HandlerFunc(func(w http.ResponseWriter, r *http.Request) {
		if atomic.LoadInt32(&healthy) == 0 {
			w.WriteHeader(500)
		}
	}))
	defer backend.Close()
	text := fmt.Sprintf("proxy / %s {\n max_fails %d\n fail_timeout %dms\n health_check /h\n health_check_interval 20ms\n health_check_timeout 2s\n}\n", backend.URL, c.MaxFails, c.TimeoutMs)
	ups, err := proxy.NewStaticUpstreams(casketfile.NewDispenser("Testfile", strings.NewReader(text)), "")
	if err != nil {
		return false, fmt.Errorf("HARNESS: %v", err)
	}
	defer ups[0].Stop()
	h := reflect.ValueOf(ups[0]).Elem().FieldByName("Hosts").Interface().(proxy.HostPool)[0]
	h.ReverseProxy.Transport = failingTransport{}
	p := proxy.Proxy{Next: httpserver.EmptyNext, Upstreams: ups}
	waitUnhealthy := func(want int32) bool {
		for d := time.Now().Add(3 * time.Second); time.Now().Before(d); time.Sleep(2 * time.Millisecond) {
			if atomic.LoadInt32(&h.Unhealthy) == want {
				return true
			}
		}
		return false
	}
	if !waitUnhealthy(0) {
		return false, fmt.Errorf("HARNESS: the backend never became healthy")
	}
	var failedAt []time.Time
	for i := 0; i < c.Failures; i++ {
		if h.Down() {
			break
		}
		before := time.Now()
		p.ServeHTTP(httptest.NewRecorder(), httptest.NewRequest("GET", "/", nil))
		failedAt = append(failedAt, before)
	}
	recorded := len(failedAt)
	negative := func(when string) error {
		if f := atomic.LoadInt32(&h.Fails); f < 0 {
			return fmt.Errorf("%s: fail count is %d (history: %d failures, then the health checker saw the backend go away and come back)", when, f, recorded)
		}
		return nil
	}
	for k := 0; k < c.Flaps; k++ {
		atomic.StoreInt32(&healthy, 0)
		if !waitUnhealthy(1) {
			return false, fmt.Errorf("HARNESS: the health checker did not notice the backend going away")
		}
		atomic.StoreInt32(&healthy, 1)
		if !waitUnhealthy(0) {
			return false, fmt.Errorf("HARNESS: the health checker did not notice the backend coming back")
		}
		// right after the recovery: failures that certainly have not expired yet must still be counted
		now := time.Now()
		lo := 0
		for _, f := range failedAt {
			if now.Sub(f) < T*3/5 {
				lo++
			}
		}
		got := int(atomic.LoadInt32(&h.Fails))
		if time.Since(now) < T/10 && got < lo {
			return true, fmt.Errorf("right after the backend passed a health check again the fail count is %d, but %d of the %d recorded failures cannot have expired yet (fail_timeout %v)", got, lo, recorded, T)
		}
		if err := negative("after a recovery"); err != nil {
			return true, err
		}
	}
	deadline := time.Now().Add(10*T + 3*time.Second)
	for {
		if err := negative("while the recorded failures expire"); err != nil {
			return true, err
		}
		if atomic.LoadInt32(&h.Fails) == 0 && time.Since(failedAt[len(failedAt)-1]) > T+T/2 {
			break
		}
		if time.Now().After(deadline) {
			return true, fmt.Errorf("fail count is still %d long after every failure expired (fail_timeout %v)", atomic.LoadInt32(&h.Fails), T)
		}
		time.Sleep(T / 10)
	}
	// a little longer: a late second decrement would show now
	time.Sleep(T / 2)
	if err := negative("after every failure has expired"); err != nil {
		return true, err
	}
	if h.Down() {
		return true, fmt.Errorf("backend still down after all failures expired and it passes health checks")
	}
	return true, nil
}

func TestHealthFlap(t *testing.T) {
	if vt.ReplayPath() != "" {
		t.Skip("replay mode")
	}
	rapid.Check(t, func(t *rapid.T) {
		c := &flapCase{TimeoutMs: rapid.SampledFrom([]int{400, 600}).Draw(t, "T"), MaxFails: rapid.IntRange(1, 3).Draw(t, "max_fails"), Failures: rapid.IntRange(1, 3).Draw(t, "failures"), Flaps: rapid.IntRange(1, 2).Draw(t, "flaps")}
		nt, err := runFlap(c)
		vt.Record("health-flap", c, nt, fmt.Sprintf("flaps=%d", c.Flaps))
		vt.Check(t, "health-flap", c, err)
	})
}
