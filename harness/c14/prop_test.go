package c14

import (
	"context"
	"errors"
	"fmt"
	"io"
	"net/http"
	"net/http/httptest"
	"reflect"
	"strings"
	"sync"
	"sync/atomic"
	"testing"
	"time"

	"github.com/tmpim/casket/casketfile"
	"github.com/tmpim/casket/caskethttp/httpserver"
	"github.com/tmpim/casket/caskethttp/proxy"
	"pgregory.net/rapid"

	"verif/harness/internal/vt"
)

func TestMain(m *testing.M) {
	vt.Property = "C14"
	vt.Main(m)
}

// ---------------------------------------------------------------------------
// a cooperative scheduler: exactly one request goroutine runs between gates

type event struct {
	id    int
	label string // select | enter | exit | done | panic
	host  int
}

type sched struct {
	events chan event
	resume map[int]chan struct{}
}

func (s *sched) gate(id int, label string, host int) {
	s.events <- event{id, label, host}
	<-s.resume[id]
}

// gated upstream: delegates to the real static upstream, then parks
type gatedUpstream struct {
	proxy.Upstream
	s    *sched
	pool proxy.HostPool
}

func reqID(r *http.Request) int {
	var id int
	fmt.Sscan(r.Header.Get("X-Req"), &id)
	return id
}

func (g *gatedUpstream) Select(r *http.Request) *proxy.UpstreamHost {
	h := g.Upstream.Select(r)
	hi := -1
	for i, x := range g.pool {
		if x == h {
			hi = i
		}
	}
	g.s.gate(reqID(r), "select", hi)
	return h
}

// gated transport of one host
type gatedTransport struct {
	s     *sched
	host  int
	plan  map[int][]string // per request id: outcome per attempt
	count map[int]int
}

func (t *gatedTransport) RoundTrip(req *http.Request) (*http.Response, error) {
	id := reqID(req)
	k := t.count[id]
	t.count[id]++
	outcome := "ok"
	if p := t.plan[id]; k < len(p) {
		outcome = p[k]
	}
	t.s.gate(id, "enter", t.host)
	if req.Body != nil {
		io.Copy(io.Discard, req.Body)
		req.Body.Close()
	}
	t.s.gate(id, "exit", t.host)
	switch outcome {
	case "error":
		return nil, errors.New("verif: injected backend error")
	case "cancel":
		return nil, context.Canceled
	case "panic":
		panic("verif: injected transport panic")
	}
	return &http.Response{StatusCode: 200, Status: "200 OK", Proto: "HTTP/1.1", ProtoMajor: 1, ProtoMinor: 1, Header: http.Header{}, Body: io.NopCloser(strings.NewReader("ok")), ContentLength: 2, Request: req}, nil
}

// ---------------------------------------------------------------------------

type Case struct {
	Hosts    int        `json:"hosts"`
	MaxConns int        `json:"max_conns"`
	MaxFails int        `json:"max_fails"`
	Policy   string     `json:"policy"`
	Retry    bool       `json:"retry"` // try_duration set: failed attempts are retried
	Plans    [][]string `json:"plans"` // per request: outcome of each attempt
	Schedule []int      `json:"schedule"`
	// Cancel: per request, whether its client goes away while the request is parked between Select and
	// the count (the first time it is parked there)
	Cancel []bool `json:"cancel,omitempty"`
}

func build(c *Case) (proxy.Upstream, proxy.HostPool, error) {
	var sb strings.Builder
	sb.WriteString("proxy /")
	for i := 0; i < c.Hosts; i++ {
		fmt.Fprintf(&sb, " http://h%d.test:80", i)
	}
	fmt.Fprintf(&sb, " {\n policy %s\n max_fails %d\n max_conns %d\n fail_timeout 1h\n", c.Policy, c.MaxFails, c.MaxConns)
	if c.Retry {
		sb.WriteString(" try_duration 150ms\n try_interval 1ms\n")
	}
	sb.WriteString("}\n")
	ups, err := proxy.NewStaticUpstreams(casketfile.NewDispenser("Testfile", strings.NewReader(sb.String())), "")
	if err != nil || len(ups) != 1 {
		return nil, nil, fmt.Errorf("HARNESS: NewStaticUpstreams: %v", err)
	}
	pool, ok := reflect.ValueOf(ups[0]).Elem().FieldByName("Hosts").Interface().(proxy.HostPool)
	if !ok {
		return nil, nil, fmt.Errorf("HARNESS: no Hosts field")
	}
	return ups[0], pool, nil
}

type rstate struct {
	state string // new | select | enter | exit | done
	host  int
}

func runCase(c *Case) (nontrivial bool, err error) {
	up, pool, e := build(c)
	if e != nil {
		return false, e
	}
	defer up.Stop()
	n := len(c.Plans)
	s := &sched{events: make(chan event), resume: map[int]chan struct{}{}}
	for i := 0; i < n; i++ {
		s.resume[i] = make(chan struct{})
	}
	for hi, h := range pool {
		plan := map[int][]string{}
		for id, p := range c.Plans {
			plan[id] = p
		}
		h.ReverseProxy.Transport = &gatedTransport{s: s, host: hi, plan: plan, count: map[int]int{}}
	}
	g := &gatedUpstream{Upstream: up, s: s, pool: pool}
	p := proxy.Proxy{Next: httpserver.EmptyNext, Upstreams: []proxy.Upstream{g}}
	st := make([]rstate, n)
	for i := range st {
		st[i] = rstate{state: "new", host: -1}
	}
	ctxs := make([]context.Context, n)
	cancels := make([]context.CancelFunc, n)
	for i := range ctxs {
		ctxs[i], cancels[i] = context.WithCancel(context.Background())
		defer cancels[i]()
	}
	fails := make([]int, len(pool)) // failures recorded per host so far (fail_timeout 1h: none expires)
	status := make([]int, n)
	start := func(id int) {
		go func() {
			defer func() {
				label := "done"
				if r := recover(); r != nil {
					label = "panic"
				}
				s.events <- event{id, label, -1}
			}()
			r := httptest.NewRequest("POST", "/", strings.NewReader("body"))
			r = r.WithContext(ctxs[id])
			r.Header.Set("X-Req", fmt.Sprint(id))
			w := httptest.NewRecorder()
			code, _ := p.ServeHTTP(w, r)
			status[id] = code
		}()
	}
	history := []string{}
	cancelled := make([]bool, n)
	step := func(id int) error {
		prev := st[id]
		if prev.state == "new" {
			start(id)
		} else {
			s.resume[id] <- struct{}{}
		}
		select {
		case ev := <-s.events:
			if ev.id != id {
				return fmt.Errorf("HARNESS: event from request %d while %d was running", ev.id, id)
			}
			// a failed attempt is recorded between leaving the transport and the next gate
			if prev.state == "exit" {
				out := "ok"
				// which attempt was it? count attempts on that host for this request
				tr := pool[prev.host].ReverseProxy.Transport.(*gatedTransport)
				k := tr.count[id] - 1
				if pl := c.Plans[id]; k >= 0 && k < len(pl) {
					out = pl[k]
				}
				if out == "error" {
					fails[prev.host]++
				}
			}
			switch ev.label {
			case "done", "panic":
				st[id] = rstate{state: "done", host: -1}
			default:
				st[id] = rstate{state: ev.label, host: ev.host}
			}
			history = append(history, fmt.Sprintf("r%d:%s@h%d", id, ev.label, ev.host))
			if ev.label == "select" && ev.host >= 0 && fails[ev.host] >= c.MaxFails {
				// none of the recorded failures can have expired (fail_timeout 1h): the backend is down
				return fmt.Errorf("backend %d was selected for request %d although it has %d unexpired failures and max_fails is %d (pool of %d; history %v)", ev.host, id, fails[ev.host], c.MaxFails, len(pool), history)
			}
			if ev.label == "select" && id < len(c.Cancel) && c.Cancel[id] && !cancelled[id] {
				cancelled[id] = true
				cancels[id]() // the client has gone away; the request is still parked before the count
				history = append(history, fmt.Sprintf("r%d:client-gone", id))
			}
			return nil
		case <-time.After(10 * time.Second):
			return fmt.Errorf("HARNESS-INCONCLUSIVE: request %d did not reach its next gate within 10s (history %v)", id, history)
		}
	}
	check := func() error {
		for hi, h := range pool {
			inflight := 0
			for _, x := range st {
				if (x.state == "enter" || x.state == "exit") && x.host == hi {
					inflight++
				}
			}
			conns := atomic.LoadInt64(&h.Conns)
			if int(conns) != inflight {
				return fmt.Errorf("backend %d: in-flight count is %d but %d requests are being forwarded to it (history %v)", hi, conns, inflight, history)
			}
			if c.MaxConns > 0 && inflight > c.MaxConns {
				return fmt.Errorf("backend %d: %d requests are being forwarded at once, max_conns is %d (history %v)", hi, inflight, c.MaxConns, history)
			}
			f := int(atomic.LoadInt32(&h.Fails))
			if f != fails[hi] {
				return fmt.Errorf("backend %d: fail count is %d after %d recorded failures, none of which can have expired (fail_timeout 1h) (history %v)", hi, f, fails[hi], history)
			}
			wantDown := fails[hi] >= c.MaxFails
			if h.Down() != wantDown {
				return fmt.Errorf("backend %d: Down()=%v with %d unexpired failures and max_fails %d (history %v)", hi, h.Down(), fails[hi], c.MaxFails, history)
			}
		}
		return nil
	}
	si := 0
	for steps := 0; steps < 4000; steps++ {
		var runnable []int
		for id, x := range st {
			if x.state != "done" {
				runnable = append(runnable, id)
			}
		}
		if len(runnable) == 0 {
			break
		}
		pick := 0
		if si < len(c.Schedule) {
			pick = c.Schedule[si]
			si++
		}
		id := runnable[pick%len(runnable)]
		if err := step(id); err != nil {
			// unblock everything parked so goroutines can end
			go func() {
				for {
					select {
					case <-s.events:
					case <-time.After(2 * time.Second):
						return
					}
				}
			}()
			for i := range st {
				if st[i].state != "done" && st[i].state != "new" && i != id {
					select {
					case s.resume[i] <- struct{}{}:
					default:
					}
				}
			}
			return false, err
		}
		// non-trivial: two requests between Select and the count at once, or a non-success outcome while another request is in flight
		sel, fl := 0, 0
		for _, x := range st {
			if x.state == "select" {
				sel++
			}
			if x.state == "enter" || x.state == "exit" {
				fl++
			}
		}
		if sel >= 2 || (sel >= 1 && fl >= 1) {
			nontrivial = true
		}
		if err := check(); err != nil {
			// let the parked goroutines finish
			go func() {
				for {
					select {
					case <-s.events:
					case <-time.After(2 * time.Second):
						return
					}
				}
			}()
			for i := range st {
				if st[i].state != "done" && st[i].state != "new" {
					go func(i int) {
						for k := 0; k < 50; k++ {
							select {
							case s.resume[i] <- struct{}{}:
							case <-time.After(100 * time.Millisecond):
								return
							}
						}
					}(i)
				}
			}
			return nontrivial, err
		}
	}
	for id, x := range st {
		if x.state != "done" {
			return nontrivial, fmt.Errorf("HARNESS-INCONCLUSIVE: request %d still %s after 4000 steps", id, x.state)
		}
	}
	// quiescence
	for hi, h := range pool {
		if v := atomic.LoadInt64(&h.Conns); v != 0 {
			return nontrivial, fmt.Errorf("backend %d: in-flight count is %d when traffic has stopped (history %v)", hi, v, history)
		}
	}
	return nontrivial, nil
}

func genCase(t *rapid.T) *Case {
	c := &Case{Hosts: rapid.IntRange(1, 3).Draw(t, "hosts"), MaxConns: rapid.IntRange(0, 3).Draw(t, "max_conns"), MaxFails: rapid.IntRange(1, 3).Draw(t, "max_fails")}
	c.Policy = rapid.SampledFrom([]string{"first", "round_robin", "least_conn", "random", "ip_hash"}).Draw(t, "policy")
	c.Retry = rapid.Bool().Draw(t, "retry")
	n := rapid.IntRange(2, 6).Draw(t, "n")
	for i := 0; i < n; i++ {
		k := rapid.IntRange(0, 2).Draw(t, fmt.Sprintf("na%d", i))
		var plan []string
		for j := 0; j < k; j++ {
			plan = append(plan, rapid.SampledFrom([]string{"ok", "error", "error", "cancel", "panic"}).Draw(t, fmt.Sprintf("o%d_%d", i, j)))
		}
		c.Plans = append(c.Plans, plan)
	}
	c.Schedule = rapid.SliceOfN(rapid.IntRange(0, 5), 10, 60).Draw(t, "schedule")
	for i := range c.Plans {
		c.Cancel = append(c.Cancel, rapid.IntRange(0, 5).Draw(t, fmt.Sprintf("cancel%d", i)) == 0)
	}
	return c
}

func TestSchedules(t *testing.T) {
	if vt.ReplayPath() != "" {
		t.Skip("replay mode")
	}
	rapid.Check(t, func(t *rapid.T) {
		c := genCase(t)
		nt, err := runCase(c)
		if err != nil && strings.HasPrefix(err.Error(), "HARNESS-INCONCLUSIVE") {
			vt.Skip("schedules", "step-timeout")
			t.Skipf("%v", err)
		}
		classes := []string{"policy:" + c.Policy, fmt.Sprintf("max_conns=%d", c.MaxConns)}
		if c.Retry {
			classes = append(classes, "retry")
		}
		vt.Record("schedules", c, nt, classes...)
		vt.Check(t, "schedules", c, err)
	})
}

// ---------------------------------------------------------------------------
// failure expiry over real time (no schedule control needed: one request at a time)

type expiryCase struct {
	TimeoutMs int   `json:"fail_timeout_ms"`
	MaxFails  int   `json:"max_fails"`
	GapsPct   []int `json:"gaps_pct"` // gap before each failure, in percent of fail_timeout
}

type failingTransport struct{}

func (failingTransport) RoundTrip(req *http.Request) (*http.Response, error) {
	if req.Body != nil {
		req.Body.Close()
	}
	return nil, errors.New("verif: injected backend error")
}

func runExpiry(c *expiryCase) (bool, error) {
	T := time.Duration(c.TimeoutMs) * time.Millisecond
	text := fmt.Sprintf("proxy / http://h0.test:80 {\n max_fails %d\n fail_timeout %dms\n}\n", c.MaxFails, c.TimeoutMs)
	ups, err := proxy.NewStaticUpstreams(casketfile.NewDispenser("Testfile", strings.NewReader(text)), "")
	if err != nil {
		return false, fmt.Errorf("HARNESS: %v", err)
	}
	defer ups[0].Stop()
	pool := reflect.ValueOf(ups[0]).Elem().FieldByName("Hosts").Interface().(proxy.HostPool)
	h := pool[0]
	h.ReverseProxy.Transport = failingTransport{}
	p := proxy.Proxy{Next: httpserver.EmptyNext, Upstreams: ups}
	var failedAt []time.Time
	slack := T / 5
	verdicts := 0
	observe := func() error {
		now := time.Now()
		lo, hi := 0, 0 // failures certainly unexpired / possibly unexpired
		for _, f := range failedAt {
			age := now.Sub(f)
			if age < T-slack {
				lo++
			}
			// expiry is a sleeping goroutine: under load it may run late (not a defect),
			// but never early; "eventually zero" is checked at the end
			if age < 3*T+time.Second {
				hi++
			}
		}
		got := int(atomic.LoadInt32(&h.Fails))
		// re-read the clock: if the observation itself was slow, give no verdict
		if time.Since(now) > slack/2 {
			return nil
		}
		if got < lo || got > hi {
			return fmt.Errorf("fail count is %d, but between %d and %d of the %d recorded failures are unexpired (fail_timeout %v, ages %v)", got, lo, hi, len(failedAt), T, ages(failedAt, now))
		}
		verdicts++
		wantDownLo, wantDownHi := lo >= c.MaxFails, hi >= c.MaxFails
		if d := h.Down(); wantDownLo == wantDownHi && d != wantDownLo {
			return fmt.Errorf("Down()=%v with %d unexpired failures and max_fails %d", d, lo, c.MaxFails)
		}
		return nil
	}
	for _, g := range c.GapsPct {
		time.Sleep(T * time.Duration(g) / 100)
		if err := observe(); err != nil {
			return true, err
		}
		if h.Down() {
			continue // an unavailable host is not selected: no attempt, no failure
		}
		r := httptest.NewRequest("GET", "/", nil)
		w := httptest.NewRecorder()
		before := time.Now()
		p.ServeHTTP(w, r)
		if time.Since(before) > slack/2 {
			return false, fmt.Errorf("HARNESS-INCONCLUSIVE: a request took %v", time.Since(before))
		}
		failedAt = append(failedAt, before)
		if err := observe(); err != nil {
			return true, err
		}
	}
	// eventually back to zero
	deadline := time.Now().Add(10*T + 2*time.Second)
	for atomic.LoadInt32(&h.Fails) != 0 {
		if time.Now().After(deadline) {
			return true, fmt.Errorf("fail count is still %d long after every failure expired (fail_timeout %v)", atomic.LoadInt32(&h.Fails), T)
		}
		time.Sleep(T / 4)
	}
	if h.Down() {
		return true, fmt.Errorf("backend still down after all failures expired")
	}
	return verdicts >= 2 && len(failedAt) >= 2, nil
}

func ages(ts []time.Time, now time.Time) []time.Duration {
	var out []time.Duration
	for _, t := range ts {
		out = append(out, now.Sub(t).Round(time.Millisecond))
	}
	return out
}

// expiry of many failures recorded at the same instant: every one of them
// must be taken off the count again.
type burstCase struct {
	TimeoutMs int `json:"fail_timeout_ms"`
	Burst     int `json:"burst"`  // simultaneous failing requests per round
	Rounds    int `json:"rounds"` // rounds, each waiting for the count to return to zero
}

func runBurst(c *burstCase) error {
	T := time.Duration(c.TimeoutMs) * time.Millisecond
	text := fmt.Sprintf("proxy / http://h0.test:80 {\n max_fails 1000000\n fail_timeout %dms\n}\n", c.TimeoutMs)
	ups, err := proxy.NewStaticUpstreams(casketfile.NewDispenser("Testfile", strings.NewReader(text)), "")
	if err != nil {
		return fmt.Errorf("HARNESS: %v", err)
	}
	defer ups[0].Stop()
	pool := reflect.ValueOf(ups[0]).Elem().FieldByName("Hosts").Interface().(proxy.HostPool)
	h := pool[0]
	h.ReverseProxy.Transport = failingTransport{}
	p := proxy.Proxy{Next: httpserver.EmptyNext, Upstreams: ups}
	for round := 0; round < c.Rounds; round++ {
		var wg sync.WaitGroup
		start := make(chan struct{})
		for i := 0; i < c.Burst; i++ {
			wg.Add(1)
			go func() {
				defer wg.Done()
				<-start
				p.ServeHTTP(httptest.NewRecorder(), httptest.NewRequest("GET", "/", nil))
			}()
		}
		close(start)
		wg.Wait()
		if got := atomic.LoadInt32(&h.Fails); got > int32(c.Burst) {
			return fmt.Errorf("round %d: fail count %d after %d failures", round, got, c.Burst)
		}
		deadline := time.Now().Add(10*T + 3*time.Second)
		for atomic.LoadInt32(&h.Fails) != 0 {
			if time.Now().After(deadline) {
				return fmt.Errorf("round %d: %d failures were recorded at the same instant; long after all of them expired (fail_timeout %v) the fail count is still %d", round, c.Burst, T, atomic.LoadInt32(&h.Fails))
			}
			time.Sleep(T / 8)
		}
		if atomic.LoadInt64(&h.Conns) != 0 {
			return fmt.Errorf("round %d: in-flight count %d with no traffic", round, atomic.LoadInt64(&h.Conns))
		}
	}
	return nil
}

func TestExpiryBurst(t *testing.T) {
	if vt.ReplayPath() != "" {
		t.Skip("replay mode")
	}
	rapid.Check(t, func(t *rapid.T) {
		c := &burstCase{TimeoutMs: rapid.SampledFrom([]int{50, 100}).Draw(t, "T"), Burst: rapid.SampledFrom([]int{64, 200, 400, 800}).Draw(t, "burst"), Rounds: rapid.IntRange(3, 12).Draw(t, "rounds")}
		err := runBurst(c)
		vt.Record("expiry-burst", c, c.Burst >= 200, fmt.Sprintf("burst=%d", c.Burst))
		vt.Extra("expiry-burst", "simultaneous_failures", c.Burst*c.Rounds)
		vt.Check(t, "expiry-burst", c, err)
	})
}

func TestExpiry(t *testing.T) {
	if vt.ReplayPath() != "" {
		t.Skip("replay mode")
	}
	rapid.Check(t, func(t *rapid.T) {
		c := &expiryCase{TimeoutMs: rapid.SampledFrom([]int{200, 300}).Draw(t, "T"), MaxFails: rapid.IntRange(1, 3).Draw(t, "max_fails")}
		c.GapsPct = rapid.SliceOfN(rapid.SampledFrom([]int{0, 30, 50, 70, 130}), 2, 5).Draw(t, "gaps")
		nt, err := runExpiry(c)
		if err != nil && strings.HasPrefix(err.Error(), "HARNESS-INCONCLUSIVE") {
			vt.Skip("expiry", "slow-machine")
			t.Skipf("%v", err)
		}
		vt.Record("expiry", c, nt)
		vt.Check(t, "expiry", c, err)
	})
}

func replayCase(rf *vt.ReplayFile) error {
	switch rf.Sub {
	case "schedules":
		var c Case
		if err := vt.Decode(rf, &c); err != nil {
			return err
		}
		_, err := runCase(&c)
		return err
	case "health-flap":
		var c flapCase
		if err := vt.Decode(rf, &c); err != nil {
			return err
		}
		_, err := runFlap(&c)
		return err
	case "expiry-failover":
		var c failoverCase
		if err := vt.Decode(rf, &c); err != nil {
			return err
		}
		_, err := runFailover(&c)
		return err
	case "expiry-burst":
		var c burstCase
		if err := vt.Decode(rf, &c); err != nil {
			return err
		}
		return runBurst(&c)
	case "expiry":
		var c expiryCase
		if err := vt.Decode(rf, &c); err != nil {
			return err
		}
		_, err := runExpiry(&c)
		return err
	}
	return fmt.Errorf("HARNESS: unknown sub %q", rf.Sub)
}

func TestReplay(t *testing.T) { vt.RunReplay(t, replayCase) }
func TestCorpus(t *testing.T) { vt.RunCorpus(t, replayCase) }
