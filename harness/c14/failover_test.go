package c14

import (
	"errors"
	"fmt"
	"io"
	"net/http"
	"net/http/httptest"
	"reflect"
	"strings"
	"sync/atomic"
	"testing"
	"time"

	"github.com/tmpim/casket/casketfile"
	"github.com/tmpim/casket/caskethttp/httpserver"
	"github.com/tmpim/casket/caskethttp/proxy"
	"pgregory.net/rapid"

	"verif/harness/internal/vt"
)

// expiry-failover: failures recorded on one backend while the same request goes on to another one
// (retries enabled).  Every failure is counted on, and expires from, the backend that failed.

type failoverCase struct {
	Hosts     int     `json:"hosts"`
	MaxFails  int     `json:"max_fails"`
	TimeoutMs int     `json:"timeout_ms"`
	Policy    string  `json:"policy"`
	Reqs      [][]int `json:"reqs"` // per request: the hosts that fail it
}

type plannedTransport struct {
	host    int
	failing *atomic.Value // map[int]bool for the request in progress
	fails   *int64
}

func (t plannedTransport) RoundTrip(req *http.Request) (*http.Response, error) {
	if req.Body != nil {
		io.Copy(io.Discard, req.Body)
		req.Body.Close()
	}
	if t.failing.Load().(map[int]bool)[t.host] {
		atomic.AddInt64(t.fails, 1)
		return nil, errors.New("verif: injected backend error")
	}
	return &http.Response{StatusCode: 200, Status: "200 OK", Proto: "HTTP/1.1", ProtoMajor: 1, ProtoMinor: 1, Header: http.Header{}, Body: io.NopCloser(strings.NewReader("ok")), ContentLength: 2, Request: req}, nil
}

func runFailover(c *failoverCase) (bool, error) {
	T := time.Duration(c.TimeoutMs) * time.Millisecond
	var sb strings.Builder
	sb.WriteString("proxy /")
	for i := 0; i < c.Hosts; i++ {
		fmt.Fprintf(&sb, " http://h%d.test:80", i)
	}
	fmt.Fprintf(&sb, " {\n policy %s\n max_fails %d\n fail_timeout %dms\n try_duration 60ms\n try_interval 1ms\n}\n", c.Policy, c.MaxFails, c.TimeoutMs)
	ups, err := proxy.NewStaticUpstreams(casketfile.NewDispenser("Testfile", strings.NewReader(sb.String())), "")
	if err != nil || len(ups) != 1 {
		return false, fmt.Errorf("HARNESS: NewStaticUpstreams: %v", err)
	}
	defer ups[0].Stop()
	pool := reflect.ValueOf(ups[0]).Elem().FieldByName("Hosts").Interface().(proxy.HostPool)
	var failing atomic.Value
	failing.Store(map[int]bool{})
	recorded := make([]int64, len(pool))
	for i, h := range pool {
		h.ReverseProxy.Transport = plannedTransport{host: i, failing: &failing, fails: &recorded[i]}
	}
	p := proxy.Proxy{Next: httpserver.EmptyNext, Upstreams: ups}
	nontrivial := false
	for ri, fl := range c.Reqs {
		m := map[int]bool{}
		for _, h := range fl {
			m[h%len(pool)] = true
		}
		failing.Store(m)
		before := make([]int64, len(pool))
		for i := range pool {
			before[i] = atomic.LoadInt64(&recorded[i])
		}
		p.ServeHTTP(httptest.NewRecorder(), httptest.NewRequest("POST", "/", strings.NewReader("body")))
		failedHere := 0
		for i, h := range pool {
			f := int64(atomic.LoadInt32(&h.Fails))
			if atomic.LoadInt64(&recorded[i]) > before[i] {
				failedHere++
			}
			// never negative, never more than the failures ever recorded on this backend
			if f < 0 || f > atomic.LoadInt64(&recorded[i]) {
				return true, fmt.Errorf("after request %d (failing on hosts %v): backend %d has fail count %d with %d failures recorded on it so far", ri, fl, i, f, atomic.LoadInt64(&recorded[i]))
			}
		}
		if failedHere >= 1 && len(m) < len(pool) {
			nontrivial = true // a request that failed somewhere and could go on to another backend
		}
	}
	// everything expires: every backend's count returns to exactly zero
	deadline := time.Now().Add(10*T + 3*time.Second)
	for {
		time.Sleep(T / 4)
		zero := true
		for _, h := range pool {
			if atomic.LoadInt32(&h.Fails) != 0 {
				zero = false
			}
		}
		if zero {
			break
		}
		if time.Now().After(deadline) {
			var got []int32
			for _, h := range pool {
				got = append(got, atomic.LoadInt32(&h.Fails))
			}
			return true, fmt.Errorf("fail counts are %v long after every failure expired (fail_timeout %v); failures recorded per backend %v", got, T, recorded)
		}
	}
	// and stay there: a late expiry must not take a count below zero
	time.Sleep(T + T/2)
	for i, h := range pool {
		if f := atomic.LoadInt32(&h.Fails); f != 0 {
			return true, fmt.Errorf("backend %d: fail count %d after all failures expired, want 0", i, f)
		}
		if h.Down() {
			return true, fmt.Errorf("backend %d is still down after all its failures expired", i)
		}
	}
	return nontrivial, nil
}

func TestExpiryFailover(t *testing.T) {
	if vt.ReplayPath() != "" {
		t.Skip("replay mode")
	}
	rapid.Check(t, func(t *rapid.T) {
		c := &failoverCase{Hosts: rapid.IntRange(2, 3).Draw(t, "hosts"), MaxFails: rapid.IntRange(1, 3).Draw(t, "max_fails"), TimeoutMs: rapid.SampledFrom([]int{40, 80}).Draw(t, "T"),
			Policy: rapid.SampledFrom([]string{"first", "round_robin", "least_conn", "random"}).Draw(t, "policy")}
		n := rapid.IntRange(1, 5).Draw(t, "n")
		for i := 0; i < n; i++ {
			c.Reqs = append(c.Reqs, rapid.SliceOfNDistinct(rapid.IntRange(0, c.Hosts-1), 0, c.Hosts, func(x int) int { return x }).Draw(t, fmt.Sprintf("f%d", i)))
		}
		nt, err := runFailover(c)
		vt.Record("expiry-failover", c, nt, fmt.Sprintf("hosts=%d", c.Hosts), "policy="+c.Policy)
		vt.Check(t, "expiry-failover", c, err)
	})
}
