package c19

import (
	"bytes"
	"encoding/binary"
	"fmt"
	"net/http"
	"reflect"
	"runtime"
	"testing"

	"github.com/tmpim/casket/caskethttp/httpserver"
	"github.com/tmpim/casket/caskettls"
	"pgregory.net/rapid"

	"verif/harness/internal/vt"
)

// ---------------------------------------------------------------------------
// ClientHello builder

type Ext struct {
	Type uint16 `json:"type"`
	Data []byte `json:"data"`
}

type Hello struct {
	Version   uint16   `json:"version"`
	SessionID int      `json:"session_id_len"`
	Ciphers   []uint16 `json:"ciphers"`
	Compr     []byte   `json:"compr"`
	Exts      []Ext    `json:"exts"`
	NoExts    bool     `json:"no_exts"`
}

// handshake message (type, 3-byte length, body) = what parseRawClientHello takes
func (h *Hello) message() []byte {
	var b bytes.Buffer
	b.Write([]byte{byte(h.Version >> 8), byte(h.Version)})
	b.Write(bytes.Repeat([]byte{0xab}, 32))
	b.WriteByte(byte(h.SessionID))
	b.Write(bytes.Repeat([]byte{0xcd}, h.SessionID))
	binary.Write(&b, binary.BigEndian, uint16(2*len(h.Ciphers)))
	for _, c := range h.Ciphers {
		binary.Write(&b, binary.BigEndian, c)
	}
	b.WriteByte(byte(len(h.Compr)))
	b.Write(h.Compr)
	if !h.NoExts {
		var e bytes.Buffer
		for _, x := range h.Exts {
			binary.Write(&e, binary.BigEndian, x.Type)
			binary.Write(&e, binary.BigEndian, uint16(len(x.Data)))
			e.Write(x.Data)
		}
		binary.Write(&b, binary.BigEndian, uint16(e.Len()))
		b.Write(e.Bytes())
	}
	body := b.Bytes()
	msg := []byte{1, byte(len(body) >> 16), byte(len(body) >> 8), byte(len(body))}
	return append(msg, body...)
}

// record = 5-byte TLS record header + message
func (h *Hello) record() []byte {
	m := h.message()
	return append([]byte{0x16, 0x03, 0x01, byte(len(m) >> 8), byte(len(m))}, m...)
}

func curvesExt(curves []uint16) Ext {
	var b bytes.Buffer
	binary.Write(&b, binary.BigEndian, uint16(2*len(curves)))
	for _, c := range curves {
		binary.Write(&b, binary.BigEndian, c)
	}
	return Ext{Type: 10, Data: b.Bytes()}
}

func pointsExt(points []byte) Ext {
	return Ext{Type: 11, Data: append([]byte{byte(len(points))}, points...)}
}

// extension orders the heuristics look for, to get past their first gates
var extOrders = [][]uint16{
	{0, 23, 65281, 10, 11, 35, 16, 5, 13},                            // firefox
	{0, 23, 65281, 10, 11, 35, 16, 5, 51, 43, 13, 45, 28, 21},        // firefox 60+
	{65281, 0, 23, 35, 13, 5, 18, 16, 30032, 11, 10},                 // chrome
	{0x0a0a, 65281, 0, 23, 35, 13, 5, 18, 16, 30032, 11, 10, 0x1a1a}, // chrome with GREASE
	{0, 5, 10, 11, 13, 35, 23, 65281},                                // edge
	{0, 5, 10},                                                       // short: ends right after 5, 10
	{0, 5},
	{5},
	{65281, 0, 23, 13, 5, 13172, 18, 16, 11, 10}, // safari
	{0, 23, 65281, 10, 11, 16, 5, 13, 21},        // tor-ish
	{15, 0, 10},                                  // heartbeat
	{},
}

var curveLists = [][]uint16{{29, 23, 24, 25}, {29, 23, 24, 25, 256}, {29, 23, 24, 25, 256, 257}, {29, 23, 24, 25, 256, 257, 258}, {29, 23, 24}, {23, 24, 25}, {0x0a0a, 29, 23, 24}, {}, {29}}
var cipherLists = [][]uint16{
	{0x1301, 0x1303, 0x1302, 0xc02b, 0xc02f, 0xcca9, 0xcca8, 0xc02c, 0xc030, 0xc00a, 0xc009, 0xc013, 0xc014, 0x33, 0x39, 0x2f, 0x35, 0xa},
	{0x0a0a, 0x1301, 0x1302, 0x1303, 0xc02b, 0xc02f, 0xc02c, 0xc030, 0xcca9, 0xcca8, 0xc013, 0xc014, 0x9c, 0x9d, 0x2f, 0x35, 0xa},
	{0xc02c, 0xc02b, 0xc030, 0xc02f, 0xc024, 0xc023, 0xc028, 0xc027, 0xc00a, 0xc009, 0xc014, 0xc013, 0x9d, 0x9c, 0x3d, 0x3c, 0x35, 0x2f, 0xa},
	{0xc02b, 0xc02f, 0xc00a, 0xc009, 0xc013, 0xc014, 0x33, 0x39, 0x2f, 0x35},
	{0x2f}, {}, {0xffff, 0x0000},
}

func genHello(t *rapid.T, lb string) *Hello {
	h := &Hello{Version: rapid.SampledFrom([]uint16{0x0303, 0x0301, 0x0304, 0x0200, 0xffff}).Draw(t, lb+"ver")}
	h.SessionID = rapid.SampledFrom([]int{0, 32, 32, 1, 31}).Draw(t, lb+"sid")
	h.Ciphers = append([]uint16{}, rapid.SampledFrom(cipherLists).Draw(t, lb+"cs")...)
	h.Compr = rapid.SampledFrom([][]byte{{0}, {}, {1, 0}}).Draw(t, lb+"compr")
	h.NoExts = rapid.IntRange(0, 9).Draw(t, lb+"noext") == 0
	order := append([]uint16{}, rapid.SampledFrom(extOrders).Draw(t, lb+"order")...)
	// perturb: drop / duplicate / insert
	for k := rapid.IntRange(0, 2).Draw(t, lb+"np"); k > 0 && len(order) > 0; k-- {
		i := rapid.IntRange(0, len(order)-1).Draw(t, fmt.Sprintf("%spi%d", lb, k))
		switch rapid.IntRange(0, 2).Draw(t, fmt.Sprintf("%spk%d", lb, k)) {
		case 0:
			order = append(order[:i], order[i+1:]...)
		case 1:
			order = append(order[:i], append([]uint16{rapid.SampledFrom([]uint16{5, 10, 11, 13, 15, 21, 0x2a2a}).Draw(t, fmt.Sprintf("%spv%d", lb, k))}, order[i:]...)...)
		case 2:
			order = order[:i+1]
		}
	}
	for i, typ := range order {
		switch typ {
		case 10:
			h.Exts = append(h.Exts, curvesExt(rapid.SampledFrom(curveLists).Draw(t, fmt.Sprintf("%scv%d", lb, i))))
		case 11:
			h.Exts = append(h.Exts, pointsExt(rapid.SampledFrom([][]byte{{0}, {0, 1, 2}, {}}).Draw(t, fmt.Sprintf("%spt%d", lb, i))))
		case 21:
			h.Exts = append(h.Exts, Ext{Type: 21, Data: make([]byte, rapid.SampledFrom([]int{0, 1, 100, 400, 2000}).Draw(t, fmt.Sprintf("%spad%d", lb, i)))})
		default:
			h.Exts = append(h.Exts, Ext{Type: typ, Data: make([]byte, rapid.SampledFrom([]int{0, 0, 1, 2, 5, 20}).Draw(t, fmt.Sprintf("%sel%d", lb, i)))})
		}
	}
	return h
}

// mutate bytes: truncate, flip length-ish bytes, append junk
func mutate(t *rapid.T, b []byte, lb string) []byte {
	b = append([]byte{}, b...)
	switch rapid.IntRange(0, 5).Draw(t, lb+"mk") {
	case 0: // truncate
		if len(b) > 0 {
			b = b[:rapid.IntRange(0, len(b)).Draw(t, lb+"tr")]
		}
	case 1: // set a byte
		if len(b) > 0 {
			b[rapid.IntRange(0, len(b)-1).Draw(t, lb+"bi")] = rapid.SampledFrom([]byte{0, 1, 2, 0x7f, 0x80, 0xff, 33}).Draw(t, lb+"bv")
		}
	case 2: // append junk
		b = append(b, rapid.SliceOfN(rapid.Byte(), 1, 8).Draw(t, lb+"junk")...)
	case 3: // set a byte near the end (extension lengths)
		if len(b) > 8 {
			b[len(b)-1-rapid.IntRange(0, 7).Draw(t, lb+"ei")] = rapid.SampledFrom([]byte{0, 1, 0xff}).Draw(t, lb+"ev")
		}
	}
	return b
}

var userAgents = []string{
	"", "curl/8.0",
	"Mozilla/5.0 (Windows NT 10.0; Win64; x64; rv:109.0) Gecko/20100101 Firefox/115.0",
	"Mozilla/5.0 (Windows NT 6.1; rv:45.0) Gecko/20100101 Firefox/45.0",
	"Mozilla/5.0 (Windows NT 6.1; rv:52.0) Gecko/20100101 Firefox/52.0",
	"Mozilla/5.0 (X11; Linux x86_64; rv:60.0) Gecko/20100101 Firefox/60.0",
	"Mozilla/5.0 (Windows NT 10.0; Win64; x64) AppleWebKit/537.36 (KHTML, like Gecko) Chrome/120.0.0.0 Safari/537.36",
	"Mozilla/5.0 (iPhone; CPU iPhone OS 16_0 like Mac OS X) AppleWebKit/605.1.15 (KHTML, like Gecko) CriOS/120.0 Mobile/15E148 Safari/604.1",
	"Mozilla/5.0 (Windows NT 10.0; Win64; x64) AppleWebKit/537.36 (KHTML, like Gecko) Chrome/64.0 Safari/537.36 Edge/17.17134",
	"Mozilla/5.0 (compatible; MSIE 10.0; Windows NT 6.2; Trident/6.0)",
	"Mozilla/5.0 (Macintosh; Intel Mac OS X 10_15_7) AppleWebKit/605.1.15 (KHTML, like Gecko) Version/16.0 Safari/605.1.15",
	"Firefox/", "Firefox/ Windows", "Windows Firefox/45.0.", "Windows Firefox/52", "Firefox/1e309 Windows", "Firefox/-45.0 Windows", "Firefox/4-5.0 Windows", "Firefox/..", "Windows Firefox/NaN", "Firefox/0x2D Windows",
}

type helloCase struct {
	Data []byte `json:"data"` // handshake message bytes given to the parser
	UA   string `json:"ua"`
	Hdr  string `json:"hdr"` // "", "X-BlueCoat-Via", "X-FCCKV2"
}

func guard(f func()) (pan interface{}, stack string) {
	defer func() {
		if p := recover(); p != nil {
			pan = p
			buf := make([]byte, 1<<13)
			stack = string(buf[:runtime.Stack(buf, false)])
		}
	}()
	f()
	return
}

func runHello(c *helloCase) (bool, error) {
	var info caskettls.ClientHelloInfo
	if p, st := guard(func() { info = httpserver.VerifParseClientHello(c.Data) }); p != nil {
		return true, fmt.Errorf("parseRawClientHello panicked on %d bytes: %v\n%s", len(c.Data), p, st)
	}
	if p, st := guard(func() { httpserver.VerifHeuristics(info) }); p != nil {
		return true, fmt.Errorf("a looksLike* heuristic panicked on the parsed hello %+v: %v\n%s", info, p, st)
	}
	r, _ := http.NewRequest("GET", "https://example.com/", nil)
	r.RemoteAddr = "198.51.100.7:5555"
	if c.UA != "" {
		r.Header.Set("User-Agent", c.UA)
	}
	if c.Hdr != "" {
		r.Header.Set(c.Hdr, "1")
	}
	if p, st := guard(func() { httpserver.VerifClassify(info, r) }); p != nil {
		return true, fmt.Errorf("interception detection panicked for User-Agent %q with hello %+v: %v\n%s", c.UA, info, p, st)
	}
	// non-trivial: the input passed the parser's first gates
	return len(c.Data) >= 42 && int(c.Data[38]) <= 32, nil
}

func TestHello(t *testing.T) {
	if vt.ReplayPath() != "" {
		t.Skip("replay mode")
	}
	rapid.Check(t, func(t *rapid.T) {
		h := genHello(t, "h")
		data := h.message()
		if rapid.Bool().Draw(t, "mutate") {
			data = mutate(t, data, "m")
		}
		c := &helloCase{Data: data, UA: rapid.SampledFrom(userAgents).Draw(t, "ua"), Hdr: rapid.SampledFrom([]string{"", "", "", "X-BlueCoat-Via", "X-FCCKV2"}).Draw(t, "hdr")}
		nt, err := runHello(c)
		vt.Record("hello", c, nt)
		vt.Check(t, "hello", c, err)
	})
}

// FuzzHello is the native coverage-guided target for the parser and heuristics.
func FuzzHello(f *testing.F) {
	for i, o := range extOrders {
		h := &Hello{Version: 0x0303, SessionID: 32, Ciphers: cipherLists[i%len(cipherLists)], Compr: []byte{0}}
		for _, typ := range o {
			switch typ {
			case 10:
				h.Exts = append(h.Exts, curvesExt(curveLists[i%len(curveLists)]))
			case 11:
				h.Exts = append(h.Exts, pointsExt([]byte{0}))
			default:
				h.Exts = append(h.Exts, Ext{Type: typ})
			}
		}
		f.Add(h.message(), byte(i))
	}
	f.Fuzz(func(t *testing.T, data []byte, ua byte) {
		c := &helloCase{Data: data, UA: userAgents[int(ua)%len(userAgents)]}
		if _, err := runHello(c); err != nil {
			t.Fatalf("%v", err)
		}
	})
}

// ---------------------------------------------------------------------------
// segmentation

type segCase struct {
	Record    []byte `json:"record"`     // the whole TLS record carrying the hello
	After     []byte `json:"after"`      // bytes following the hello on the wire
	Cuts      []int  `json:"cuts"`       // segment boundaries (offsets into record+after)
	ReadSizes []int  `json:"read_sizes"` // buffer sizes of successive reads
}

func (c *segCase) segments() [][]byte {
	all := append(append([]byte{}, c.Record...), c.After...)
	var segs [][]byte
	prev := 0
	for _, cut := range c.Cuts {
		if cut <= prev || cut >= len(all) {
			continue
		}
		segs = append(segs, all[prev:cut])
		prev = cut
	}
	return append(segs, all[prev:])
}

func runSeg(c *segCase) (bool, error) {
	all := append(append([]byte{}, c.Record...), c.After...)
	want := httpserver.VerifParseClientHello(c.Record[5:])
	var whole, split caskettls.ClientHelloInfo
	var okWhole, okSplit bool
	var through []byte
	if p, st := guard(func() { whole, okWhole, _ = httpserver.VerifRecordHello([][]byte{all}, []int{len(all) + 16}) }); p != nil {
		return true, fmt.Errorf("clientHelloConn.Read panicked: %v\n%s", p, st)
	}
	if p, st := guard(func() { split, okSplit, through = httpserver.VerifRecordHello(c.segments(), c.ReadSizes) }); p != nil {
		return true, fmt.Errorf("clientHelloConn.Read panicked on segments: %v\n%s", p, st)
	}
	segs := c.segments()
	var lens []int
	for _, s := range segs {
		lens = append(lens, len(s))
	}
	if !bytes.Equal(through, all) {
		return true, fmt.Errorf("the TLS stack would not see the original byte stream: %d bytes passed through, %d sent (segments %v, read sizes %v)", len(through), len(all), lens, c.ReadSizes)
	}
	if !okWhole || !reflect.DeepEqual(whole, want) {
		return true, fmt.Errorf("hello delivered in one read: recorded=%v info=%+v, parser says %+v", okWhole, whole, want)
	}
	if !okSplit {
		return true, fmt.Errorf("hello of %d bytes delivered in segments %v (read sizes %v) was never recorded; delivered whole it is recorded", len(c.Record), lens, c.ReadSizes)
	}
	if !reflect.DeepEqual(split, whole) {
		return true, fmt.Errorf("what is recorded depends on the segmentation: segments %v (read sizes %v) recorded %+v, one read recorded %+v", lens, c.ReadSizes, split, whole)
	}
	return len(segs) >= 2, nil
}

func TestSegmentation(t *testing.T) {
	if vt.ReplayPath() != "" {
		t.Skip("replay mode")
	}
	rapid.Check(t, func(t *rapid.T) {
		h := genHello(t, "h")
		// make it a well-formed hello of a drawn size
		if rapid.Bool().Draw(t, "big") {
			h.Exts = append(h.Exts, Ext{Type: 21, Data: make([]byte, rapid.SampledFrom([]int{300, 600, 2000, 9000}).Draw(t, "padlen"))})
		}
		c := &segCase{Record: h.record()}
		c.After = rapid.SliceOfN(rapid.Byte(), 0, 40).Draw(t, "after")
		total := len(c.Record) + len(c.After)
		nc := rapid.IntRange(1, 5).Draw(t, "ncuts")
		for i := 0; i < nc; i++ {
			var cut int
			switch rapid.IntRange(0, 4).Draw(t, fmt.Sprintf("ck%d", i)) {
			case 0:
				cut = rapid.IntRange(1, 6).Draw(t, fmt.Sprintf("c%d", i)) // around the 5-byte header
			case 1:
				cut = len(c.Record) - rapid.IntRange(0, 3).Draw(t, fmt.Sprintf("c%d", i)) // around the end of the hello
			case 2:
				cut = rapid.SampledFrom([]int{512, 517, 576, 1024}).Draw(t, fmt.Sprintf("c%d", i))
			default:
				cut = rapid.IntRange(1, total-1).Draw(t, fmt.Sprintf("c%d", i))
			}
			c.Cuts = append(c.Cuts, cut)
		}
		sortInts(c.Cuts)
		c.ReadSizes = rapid.SliceOfN(rapid.SampledFrom([]int{1, 3, 5, 6, 64, 512, 517, 576, 4096, 16384}), 1, 3).Draw(t, "rs")
		nt, err := runSeg(c)
		vt.Record("segmentation", c, nt)
		vt.Check(t, "segmentation", c, err)
	})
}

func sortInts(a []int) {
	for i := 1; i < len(a); i++ {
		for j := i; j > 0 && a[j] < a[j-1]; j-- {
			a[j], a[j-1] = a[j-1], a[j]
		}
	}
}

// ---------------------------------------------------------------------------
// user agents

type uaCase struct {
	UA string `json:"ua"`
}

var uaParts = []string{"Firefox/", "Chrome/", "Safari/", "Edge/", "CriOS/", "MSIE ", "Trident/", "Windows", "45.0", "52.0", "45", ".", "..", "-", "--", "1e400", "NaN", "Inf", "0x", " ", "  ", "/", "Mozilla/5.0", "(", ")", ";", "é", "\x00", "+", "e", "_", "45.0.1.2", "9999999999999999999999"}

func runUA(c *uaCase) (bool, error) {
	for _, name := range []string{"Firefox", "Chrome", "Safari", "Edge", ""} {
		if p, st := guard(func() { httpserver.VerifGetVersion(c.UA, name) }); p != nil {
			return true, fmt.Errorf("getVersion(%q, %q) panicked: %v\n%s", c.UA, name, p, st)
		}
	}
	r, _ := http.NewRequest("GET", "https://example.com/", nil)
	r.RemoteAddr = "198.51.100.7:5555"
	r.Header.Set("User-Agent", c.UA)
	for _, info := range []caskettls.ClientHelloInfo{{}, httpserver.VerifParseClientHello((&Hello{Version: 0x0303, SessionID: 32, Ciphers: cipherLists[0], Compr: []byte{0}, Exts: []Ext{{Type: 0}, {Type: 5}, curvesExt(curveLists[1])}}).message())} {
		if p, st := guard(func() { httpserver.VerifClassify(info, r) }); p != nil {
			return true, fmt.Errorf("interception detection panicked for User-Agent %q: %v\n%s", c.UA, p, st)
		}
	}
	for _, k := range []string{"Firefox", "Chrome", "Safari", "Edge", "MSIE", "Trident", "CriOS"} {
		if bytes.Contains([]byte(c.UA), []byte(k)) {
			return true, nil
		}
	}
	return false, nil
}

func TestUserAgent(t *testing.T) {
	if vt.ReplayPath() != "" {
		t.Skip("replay mode")
	}
	rapid.Check(t, func(t *rapid.T) {
		var ua string
		if rapid.Bool().Draw(t, "raw") {
			ua = rapid.StringN(0, 40, 600).Draw(t, "rawua")
		} else {
			parts := rapid.SliceOfN(rapid.SampledFrom(uaParts), 0, 10).Draw(t, "parts")
			for _, p := range parts {
				ua += p
			}
		}
		c := &uaCase{UA: ua}
		nt, err := runUA(c)
		vt.Record("useragent", c, nt)
		vt.Check(t, "useragent", c, err)
	})
}
