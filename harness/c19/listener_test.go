package c19

import (
	"crypto/ecdsa"
	"crypto/elliptic"
	"crypto/rand"
	"crypto/tls"
	"crypto/x509"
	"crypto/x509/pkix"
	"fmt"
	"math/big"
	"net"
	"reflect"
	"sync"
	"testing"
	"time"

	"github.com/tmpim/casket/caskethttp/httpserver"
	"github.com/tmpim/casket/caskettls"
	"pgregory.net/rapid"

	"verif/harness/internal/vt"
)

// listener: the real ClientHello-recording listener with real connections.
// Earlier connections complete their hello and are closed (what a server does
// all day), then several connections arrive at once, each delivering its
// hello in a few pieces. What is recorded for a connection must be its own
// hello, whatever the others are doing.

type listenerCase struct {
	Hellos [][]byte `json:"hellos"` // hello records, one per connection of a wave
	Pieces [][]int  `json:"pieces"` // per connection: where its record is cut
	Warmup int      `json:"warmup"` // connections that complete and close before each wave
	Waves  int      `json:"waves"`
}

var (
	srvCfgOnce sync.Once
	srvCfg     *tls.Config
)

func serverConfig() *tls.Config {
	srvCfgOnce.Do(func() {
		key, _ := ecdsa.GenerateKey(elliptic.P256(), rand.Reader)
		tpl := &x509.Certificate{SerialNumber: big.NewInt(19), Subject: pkix.Name{CommonName: "c19"}, NotBefore: time.Now().Add(-time.Hour), NotAfter: time.Now().Add(24 * time.Hour), DNSNames: []string{"c19.test"}}
		der, _ := x509.CreateCertificate(rand.Reader, tpl, tpl, &key.PublicKey, key)
		srvCfg = &tls.Config{Certificates: []tls.Certificate{{Certificate: [][]byte{der}, PrivateKey: key}}}
	})
	return srvCfg
}

func runListener(c *listenerCase) (bool, error) {
	inner, err := net.Listen("tcp", "127.0.0.1:0")
	if err != nil {
		return false, fmt.Errorf("HARNESS: %v", err)
	}
	ln, recorded := httpserver.VerifHelloListener(inner, serverConfig())
	defer ln.Close()
	var mu sync.Mutex
	expected := map[string]caskettls.ClientHelloInfo{} // by the client's address
	var bad []string
	var served sync.WaitGroup
	go func() {
		for {
			conn, err := ln.Accept()
			if err != nil {
				return
			}
			served.Add(1)
			go func(conn net.Conn) {
				defer served.Done()
				var pan interface{}
				var herr error
				func() {
					defer func() { pan = recover() }()
					conn.SetDeadline(time.Now().Add(10 * time.Second))
					herr = conn.(*tls.Conn).Handshake() // reads the hello through the recording connection
				}()
				if ne, ok := herr.(net.Error); ok && ne.Timeout() && pan == nil {
					conn.Close() // the hello did not arrive in time (a starved machine): nothing to judge
					return
				}
				addr := conn.RemoteAddr().String()
				// the client registers what it is going to send before it sends it
				mu.Lock()
				want, known := expected[addr]
				mu.Unlock()
				got, ok := recorded(addr)
				switch {
				case pan != nil:
					mu.Lock()
					bad = append(bad, fmt.Sprintf("handshake with %s panicked: %v", addr, pan))
					mu.Unlock()
				case known && (!ok || !reflect.DeepEqual(got, want)):
					mu.Lock()
					bad = append(bad, fmt.Sprintf("connection %s: recorded=%v %+v, its own hello parses to %+v", addr, ok, got, want))
					mu.Unlock()
				}
				conn.Close() // as net/http does when the connection ends
			}(conn)
		}
	}()
	send := func(record []byte, cuts []int, wg *sync.WaitGroup) {
		defer wg.Done()
		conn, err := net.DialTimeout("tcp", inner.Addr().String(), 5*time.Second)
		if err != nil {
			return
		}
		defer conn.Close()
		mu.Lock()
		expected[conn.LocalAddr().String()] = httpserver.VerifParseClientHello(record[5:])
		mu.Unlock()
		prev := 0
		for _, cut := range cuts {
			if cut <= prev || cut >= len(record) {
				continue
			}
			conn.Write(record[prev:cut])
			prev = cut
			time.Sleep(300 * time.Microsecond)
		}
		conn.Write(record[prev:])
		conn.SetReadDeadline(time.Now().Add(2 * time.Second))
		buf := make([]byte, 4096)
		conn.Read(buf) // ServerHello or an alert: the hello has been consumed
	}
	for w := 0; w < c.Waves; w++ {
		for k := 0; k < c.Warmup; k++ {
			var wg sync.WaitGroup
			wg.Add(1)
			send(c.Hellos[k%len(c.Hellos)], nil, &wg)
		}
		served.Wait()
		var wg sync.WaitGroup
		for i, h := range c.Hellos {
			wg.Add(1)
			go send(h, c.Pieces[i%len(c.Pieces)], &wg)
		}
		wg.Wait()
		served.Wait()
		mu.Lock()
		if len(bad) > 0 {
			msg := bad[0]
			mu.Unlock()
			return true, fmt.Errorf("wave %d (%d connections at once after %d that completed and closed): %s", w, len(c.Hellos), c.Warmup, msg)
		}
		mu.Unlock()
	}
	return len(c.Hellos) >= 2, nil
}

func TestListener(t *testing.T) {
	if vt.ReplayPath() != "" {
		t.Skip("replay mode")
	}
	rapid.Check(t, func(t *rapid.T) {
		c := &listenerCase{Warmup: rapid.IntRange(0, 4).Draw(t, "warmup"), Waves: rapid.IntRange(1, 3).Draw(t, "waves")}
		n := rapid.IntRange(1, 8).Draw(t, "conns")
		for i := 0; i < n; i++ {
			rec := genHello(t, fmt.Sprintf("h%d", i)).record()
			c.Hellos = append(c.Hellos, rec)
			var cuts []int
			for k := rapid.IntRange(0, 3).Draw(t, fmt.Sprintf("k%d", i)); k > 0; k-- {
				cuts = append(cuts, rapid.IntRange(1, len(rec)).Draw(t, fmt.Sprintf("cut%d_%d", i, k)))
			}
			sortInts(cuts)
			c.Pieces = append(c.Pieces, cuts)
		}
		nt, err := runListener(c)
		vt.Record("listener", c, nt, fmt.Sprintf("conns=%d", n))
		vt.Check(t, "listener", c, err)
	})
}
