package c19

import (
	"bytes"
	"encoding/binary"
	"fmt"
	"io"
	"net"
	"net/http"
	"net/http/httptest"
	"os"
	"path/filepath"
	"strings"
	"sync"
	"sync/atomic"
	"testing"
	"time"

	"github.com/tmpim/casket/caskethttp/httpserver"
	"github.com/tmpim/casket/caskethttp/push"
	"pgregory.net/rapid"

	"verif/harness/internal/srv"
	"verif/harness/internal/vt"
)

func TestMain(m *testing.M) {
	vt.Property = "C19"
	vt.Main(m)
}

// ---------------------------------------------------------------------------
// Link response headers -> push.Middleware

type linkCase struct {
	Links []string `json:"links"`
}

type fakePusher struct {
	httptest.ResponseRecorder
	pushed []string
}

func (p *fakePusher) Push(target string, opts *http.PushOptions) error {
	p.pushed = append(p.pushed, target)
	return nil
}

var linkParts = []string{"<", ">", "</a.css>", "</b.js>", ";", "; ", "rel=preload", "as=style", "nopush", "=", ",", ", ", " ", "<>", "><", ">x<", "<<", ">>", "<//cdn/x>", "<http://x/y>", "\"", "as=\"a,b\"", "\t", "é", "<" + strings.Repeat("a", 300) + ">", "rel", ";;", "=;", "<a>;<b>", "x"}

func runLink(c *linkCase) (bool, error) {
	next := httpserver.HandlerFunc(func(w http.ResponseWriter, r *http.Request) (int, error) {
		for _, l := range c.Links {
			w.Header().Add("Link", l)
		}
		w.WriteHeader(200)
		return 0, nil
	})
	mw := push.Middleware{Next: next}
	r := httptest.NewRequest("GET", "/index.html", nil)
	w := &fakePusher{ResponseRecorder: *httptest.NewRecorder()}
	if p, st := guard(func() { mw.ServeHTTP(w, r) }); p != nil {
		return true, fmt.Errorf("push.Middleware panicked on Link headers %q: %v\n%s", c.Links, p, st)
	}
	for _, l := range c.Links {
		if strings.Contains(l, "<") && strings.Contains(l, ">") {
			return true, nil
		}
	}
	return false, nil
}

func TestLink(t *testing.T) {
	if vt.ReplayPath() != "" {
		t.Skip("replay mode")
	}
	rapid.Check(t, func(t *rapid.T) {
		c := &linkCase{}
		n := rapid.IntRange(1, 3).Draw(t, "n")
		for i := 0; i < n; i++ {
			if rapid.IntRange(0, 4).Draw(t, fmt.Sprintf("raw%d", i)) == 0 {
				c.Links = append(c.Links, rapid.StringN(0, 30, 100).Draw(t, fmt.Sprintf("r%d", i)))
				continue
			}
			parts := rapid.SliceOfN(rapid.SampledFrom(linkParts), 0, 8).Draw(t, fmt.Sprintf("p%d", i))
			c.Links = append(c.Links, strings.Join(parts, ""))
		}
		nt, err := runLink(c)
		vt.Record("link", c, nt)
		vt.Check(t, "link", c, err)
	})
}

// ---------------------------------------------------------------------------
// hostile FastCGI responder + hostile request text, end to end

// a raw responder: reads the request (until the empty STDIN record or a short
// timeout), then writes the scripted bytes and closes
type rawResponder struct {
	ln net.Listener
	mu sync.Mutex
	by map[string][]byte // reply per id; "" = default
}

func newRawResponder() *rawResponder {
	ln, err := net.Listen("tcp", "127.0.0.1:0")
	if err != nil {
		panic(err)
	}
	r := &rawResponder{ln: ln, by: map[string][]byte{}}
	go func() {
		for {
			c, err := ln.Accept()
			if err != nil {
				return
			}
			go r.serve(c)
		}
	}()
	return r
}

func (r *rawResponder) serve(c net.Conn) {
	defer c.Close()
	c.SetDeadline(time.Now().Add(3 * time.Second))
	var all []byte
	var hdr [8]byte
	for {
		if _, err := io.ReadFull(c, hdr[:]); err != nil {
			break
		}
		n := int(binary.BigEndian.Uint16(hdr[4:6])) + int(hdr[6])
		buf := make([]byte, n)
		if _, err := io.ReadFull(c, buf); err != nil {
			break
		}
		all = append(all, buf...)
		if hdr[1] == 5 && binary.BigEndian.Uint16(hdr[4:6]) == 0 {
			break
		}
	}
	id := ""
	if i := bytes.Index(all, []byte("HTTP_X_FCGI_ID")); i >= 0 {
		rest := all[i+len("HTTP_X_FCGI_ID"):]
		if j := bytes.IndexByte(rest, '!'); j >= 0 && j < 40 {
			id = string(rest[:j])
		}
	}
	r.mu.Lock()
	reply := r.by[id]
	delete(r.by, id)
	r.mu.Unlock()
	c.Write(reply)
}

func fcgiRecord(typ byte, id uint16, data []byte, pad int) []byte {
	h := []byte{1, typ, byte(id >> 8), byte(id), byte(len(data) >> 8), byte(len(data)), byte(pad), 0}
	return append(append(h, data...), make([]byte, pad)...)
}

var (
	e2eOnce sync.Once
	e2eRoot string
	raw     *rawResponder
)

func e2eSetup() {
	e2eOnce.Do(func() {
		e2eRoot = filepath.Join(vt.WorkDir, "c19root")
		os.MkdirAll(filepath.Join(e2eRoot, "noindex"), 0o755)
		os.MkdirAll(filepath.Join(e2eRoot, "secret"), 0o755)
		os.MkdirAll(filepath.Join(e2eRoot, "tpl"), 0o755)
		os.WriteFile(filepath.Join(e2eRoot, "index.html"), []byte("<html>index</html>"), 0o644)
		os.WriteFile(filepath.Join(e2eRoot, "a.txt"), []byte("a text"), 0o644)
		os.WriteFile(filepath.Join(e2eRoot, "noindex", "f.txt"), []byte("f"), 0o644)
		os.WriteFile(filepath.Join(e2eRoot, "secret", "s.txt"), []byte("s"), 0o644)
		os.WriteFile(filepath.Join(e2eRoot, "tpl", "t.html"), []byte("{{.Method}} {{.Host}} {{.Cookie \"sid\"}} {{.Header \"X-A\"}} {{.PathMatches \"/tpl\"}} {{.URI}} {{.IP}} {{.Hostname}}"), 0o644)
		os.WriteFile(filepath.Join(e2eRoot, "x.md"), []byte("# md\n"), 0o644)
		raw = newRawResponder()
	})
}

const denseFormat = `{remote} {method} {uri} [{>Cookie}] [{~sid}] [{?q}] [{>X-A}] {label1} {label9} {hostonly} {path_escaped} {query_escaped} {fragment} {dir} {file} {mitm} {request_body} {when_unix} {server_port} {scheme} {rewrite_uri} {rewrite_path_escaped} {uri_escaped} {host} {proto} {request} {latency_ms} {status} {size} {user} {request_id} {tls_cipher} {>Range} {nosuch} \{x\}`

func denseSite(dir string) string {
	e2eSetup()
	return fmt.Sprintf(`http://localhost:0, http://a.b.c.d.localhost:0, http://:0 {
	root %s
	log / %s/access.log "%s"
	errors %s/errors.log
	request_id
	header / X-Echo "{>X-A}|{~sid}|{?q}|{label2}"
	rewrite /rw {
		regexp ^/rw/(.*)$
		to /{1}?{query}&r={>X-A}
	}
	rewrite {
		if {>X-Rw} is yes
		if {?q} starts_with a
		if_op or
		to /a.txt
	}
	redir /old /new/{uri} 302
	redir {
		if {>X-Redir} match ^y.*$
		/ /redirected{uri}
	}
	ext .html .txt
	mime .x text/x
	basicauth /secret bob pw
	templates /tpl .html
	markdown /md
	browse /noindex
	status 418 /teapot
	internal /internal
	gzip
	fastcgi /app %s php {
		read_timeout 300ms
		send_timeout 300ms
		connect_timeout 300ms
	}
}
`, e2eRoot, dir, strings.ReplaceAll(denseFormat, `"`, `\"`), dir, raw.ln.Addr().String())
}

type e2eReq struct {
	Raw   []byte `json:"raw"`             // the raw request bytes (hostile request text)
	Reply []byte `json:"reply,omitempty"` // for /app requests: the bytes the hostile FastCGI responder sends
}

type e2eCase struct {
	Reqs []e2eReq `json:"reqs"`
}

var seq int64

func panicLines(s string) string {
	for _, l := range strings.Split(s, "\n") {
		if strings.Contains(l, "[PANIC") || strings.Contains(l, "panic serving") || strings.Contains(l, "runtime error") {
			return l
		}
	}
	return ""
}

func runE2E(c *e2eCase) (int, error) {
	e2eSetup()
	dir := filepath.Join(vt.WorkDir, fmt.Sprintf("c19-%d", atomic.AddInt64(&seq, 1)))
	os.MkdirAll(dir, 0o755)
	defer os.RemoveAll(dir)
	inst, e := srv.Start(denseSite(dir), "")
	if e != nil {
		srv.Stop(inst)
		return 0, fmt.Errorf("HARNESS: start: %v", e)
	}
	stopped := false
	defer func() {
		if !stopped {
			srv.Stop(inst)
		}
	}()
	addr := srv.Loopback(srv.Addrs(inst)[0])
	nt := 0
	for i, r := range c.Reqs {
		id := fmt.Sprintf("%d", atomic.AddInt64(&seq, 1))
		rawReq := bytes.ReplaceAll(r.Raw, []byte("@ID@"), []byte(id+"!"))
		if r.Reply != nil {
			raw.mu.Lock()
			raw.by[id] = r.Reply
			raw.mu.Unlock()
		}
		srv.LogBuf.Reset()
		conn, err := net.DialTimeout("tcp", addr, 3*time.Second)
		if err != nil {
			return nt, fmt.Errorf("HARNESS: dial: %v", err)
		}
		conn.SetDeadline(time.Now().Add(4 * time.Second))
		conn.Write(rawReq)
		resp, _ := io.ReadAll(conn) // until the server closes (Connection: close) or the deadline
		conn.Close()
		if bytes.HasPrefix(resp, []byte("HTTP/1.1 ")) && !bytes.HasPrefix(resp, []byte("HTTP/1.1 400")) {
			nt++
		}
		time.Sleep(2 * time.Millisecond)
		if l := panicLines(srv.LogBuf.String()); l != "" {
			return nt, fmt.Errorf("request %d made request handling panic: %s\nrequest bytes: %q\nresponder reply: %q", i, l, clipB(rawReq), clipB(r.Reply))
		}
		if b, _ := os.ReadFile(filepath.Join(dir, "errors.log")); len(b) > 0 {
			if l := panicLines(string(b)); l != "" {
				return nt, fmt.Errorf("request %d made a handler panic (errors log): %s\nrequest bytes: %q\nresponder reply: %q", i, l, clipB(rawReq), clipB(r.Reply))
			}
		}
	}
	// the server must still answer
	resp, err := srv.Once(addr, "GET", srv.Request("GET", "/a.txt", "localhost", [][2]string{{"Connection", "close"}}, nil))
	if err != nil || resp.Status != 200 {
		return nt, fmt.Errorf("after the batch the server no longer serves /a.txt (err=%v)", err)
	}
	srv.Stop(inst)
	stopped = true
	return nt, nil
}

func clipB(b []byte) []byte {
	if len(b) > 600 {
		return append(append([]byte{}, b[:600]...), []byte("...")...)
	}
	return b
}

var hostilePaths = []string{"/", "/a.txt", "/a", "/index", "/tpl/t.html", "/rw/a.txt", "/rw/%2e%2e/a.txt", "/old", "/old/x?y=1", "/secret/s.txt", "/noindex/", "/noindex/?sort=size&order=desc&limit=-1", "/noindex/?limit=99999999999999999999", "/teapot", "/x.md", "/md/x.md", "/internal/x", "/app/x.php", "/app/%C8%BA%C8%BA%C8%BA%C8%BA.php", "/app/%C4%B0.php/%C4%B0", "/app/", "/%", "/%zz", "/a.txt%00", "/\x00", "/a b", "/é", "/%C3%A9.txt", "/a.txt?q=%zz", "/a.txt?q=a%00b&q=2", "/a.txt?%3D=%26", "/a.txt#frag", "//a.txt", "/./a.txt", "/a.txt/", "/{path}", "/{>Cookie}", "/\\{x\\}", "*", "http://localhost/a.txt", "/" + strings.Repeat("a/", 200), "/tpl/t.html?{{.Method}}"}
var hostileHeaders = [][2]string{{"Cookie", "sid=abc"}, {"Cookie", "sid"}, {"Cookie", "=x; sid=\"q\"; ;;"}, {"Cookie", "sid={status}; a=b"}, {"Cookie", strings.Repeat("k=v; ", 300)}, {"Cookie", "sid=\x01\x02"}, {"X-A", "{>Cookie}"}, {"X-A", "\\{"}, {"X-A", "{"}, {"X-A", "}{"}, {"X-A", strings.Repeat("{a}", 500)}, {"X-Rw", "yes"}, {"X-Redir", "yes"}, {"Authorization", "Basic"}, {"Authorization", "Basic !!!!"}, {"Authorization", "Basic Ym9i"}, {"Authorization", "Basic Ym9iOnB3"}, {"Authorization", "Bearer x"}, {"Range", "bytes=0-"}, {"Range", "bytes=-1"}, {"Range", "bytes=5-1,9-,a"}, {"Range", "bytes=" + strings.Repeat("0-1,", 200)}, {"If-Modified-Since", "garbage"}, {"If-None-Match", "\"\""}, {"If-Range", "x"}, {"Accept-Encoding", "gzip"}, {"Accept-Encoding", "gzip;q=0, *;q=0"}, {"Accept", "application/json"}, {"Content-Type", "application/json"}, {"Content-Type", "application/xml; charset={x}"}, {"Host", "a.b.c.d.localhost"}, {"Upgrade", "websocket"}, {"Connection", "Upgrade"}, {"Expect", "100-continue"}, {"X-Forwarded-For", "1.2.3.4, x"}, {"User-Agent", strings.Repeat("U", 600)}, {"Referer", "{uri}"}, {"Accept-Language", "\xff\xfe"}}

func genRawRequest(t *rapid.T, lb string) e2eReq {
	method := rapid.SampledFrom([]string{"GET", "GET", "HEAD", "POST", "PUT", "OPTIONS", "PROPFIND", "DELETE", "G\x00T", "get"}).Draw(t, lb+"m")
	path := rapid.SampledFrom(hostilePaths).Draw(t, lb+"p")
	var sb bytes.Buffer
	host := rapid.SampledFrom([]string{"localhost", "localhost", "a.b.c.d.localhost", "LOCALHOST:80", "localhost:x", "[::1]", "", "[::1]:80", "[::1", "[", "[localhost", "localhost]", "][", "[]", "[]:80", "[::1]x", "lo[calhost", ":80", "localhost:", "::1", "[::1]:"}).Draw(t, lb+"h")
	fmt.Fprintf(&sb, "%s %s HTTP/1.1\r\nHost: %s\r\nConnection: close\r\nX-Fcgi-Id: @ID@\r\n", method, path, host)
	n := rapid.IntRange(0, 6).Draw(t, lb+"nh")
	for i := 0; i < n; i++ {
		kv := rapid.SampledFrom(hostileHeaders).Draw(t, fmt.Sprintf("%shd%d", lb, i))
		if kv[0] == "Host" || kv[0] == "Expect" && method == "GET" {
			continue
		}
		fmt.Fprintf(&sb, "%s: %s\r\n", kv[0], kv[1])
	}
	if rapid.IntRange(0, 7).Draw(t, lb+"longname") == 0 {
		// a header whose CGI name does not fit a FastCGI record
		fmt.Fprintf(&sb, "X-%s: v\r\n", strings.Repeat("n", rapid.SampledFrom([]int{65480, 65490, 65500, 65600, 70000}).Draw(t, lb+"lnl")))
	}
	if method == "POST" || method == "PUT" {
		body := rapid.SampledFrom([]string{"", "{\"a\":1}", "<x/>", strings.Repeat("b", 5000), "\x00\xff{status}"}).Draw(t, lb+"body")
		fmt.Fprintf(&sb, "Content-Length: %d\r\n\r\n%s", len(body), body)
	} else {
		sb.WriteString("\r\n")
	}
	r := e2eReq{Raw: sb.Bytes()}
	if strings.HasPrefix(path, "/app") {
		r.Reply = genFcgiReply(t, lb+"f")
	}
	return r
}

// hostile FastCGI record streams: well-formed records with hostile content, and broken framing
func genFcgiReply(t *rapid.T, lb string) []byte {
	heads := []string{"Content-Type: text/html\r\n\r\n", "Status: 200 OK\r\nContent-Type: text/html\r\n\r\n", "Status: abc\r\n\r\n", "Status: 99999999999999999999 x\r\n\r\n", "Status:\r\n\r\n", "Status: 0\r\n\r\n", "Status: -1\r\n\r\n", "Status: 1000 big\r\n\r\n", "\r\n", "", "no colon line\r\n\r\n", "Content-Length: -5\r\n\r\n", "Content-Length: 10\r\n\r\nab", "Transfer-Encoding: chunked\r\n\r\nzz\r\nxx", "Transfer-Encoding: chunked\r\n\r\n5\r\nab", "Link: >x<\r\n\r\n", "Link: <\r\nX: y\r\n\r\n", "Location: {uri}\r\nStatus: 302\r\n\r\n", "X-Accel-Redirect: /internal/x\r\n\r\n", ": empty name\r\n\r\n", "A: b\r\n continuation\r\n\r\n", strings.Repeat("X-H: v\r\n", 2000) + "\r\n", "Content-Type: text/html\n\nbody with bare LF"}
	head := rapid.SampledFrom(heads).Draw(t, lb+"head")
	if rapid.IntRange(0, 3).Draw(t, lb+"genstatus") == 0 {
		// a status code text drawn from signs, leading zeros and digit counts
		code := rapid.SampledFrom([]string{"", "+", "-", "0", "00", " "}).Draw(t, lb+"sgn") + rapid.SampledFrom([]string{"0", "7", "42", "99", "100", "200", "404", "999", "1000", "65536", "2e2", "0x1F", "200.0"}).Draw(t, lb+"dig")
		head = "Status: " + code + rapid.SampledFrom([]string{"", " OK", " "}).Draw(t, lb+"txt") + "\r\nContent-Type: text/plain\r\n\r\n"
	}
	body := rapid.SampledFrom([]string{"", "hello", strings.Repeat("x", 70000)}).Draw(t, lb+"body")
	stream := []byte(head + body)
	var out []byte
	k := rapid.IntRange(0, 11).Draw(t, lb+"k")
	cut := rapid.SampledFrom([]int{1, 7, 100, 65535}).Draw(t, lb+"cut")
	if len(stream) > 20000 && cut < 100 {
		cut = 4096
	}
	for len(stream) > 0 {
		n := cut
		if n > len(stream) {
			n = len(stream)
		}
		out = append(out, fcgiRecord(6, 1, stream[:n], rapid.SampledFrom([]int{0, 0, 3, 255}).Draw(t, lb+"pad"))...)
		stream = stream[n:]
		if k == 9 {
			out = append(out, fcgiRecord(7, 1, []byte("stderr line\n"), 0)...)
		}
	}
	end := append(fcgiRecord(6, 1, nil, 0), fcgiRecord(3, 1, make([]byte, 8), 0)...)
	switch k {
	case 0: // no end at all: just close
		return out
	case 1: // wrong version in the first record
		if len(out) > 0 {
			out[0] = 9
		}
		return append(out, end...)
	case 2: // a record that announces more than it delivers
		return append(out, []byte{1, 6, 0, 1, 0xff, 0xff, 0xff, 0}...)
	case 3: // unknown record types
		return append(append(fcgiRecord(11, 1, []byte("unk"), 0), fcgiRecord(200, 0, nil, 0)...), append(out, end...)...)
	case 4: // hundreds of empty stdout records before the data
		var e []byte
		for i := 0; i < 300; i++ {
			e = append(e, fcgiRecord(6, 1, nil, 0)...)
		}
		return append(e, append(out, end...)...)
	case 5: // only stderr
		return append(fcgiRecord(7, 1, []byte("PHP Fatal error: boom\n"), 7), end...)
	case 6: // END_REQUEST first
		return append(fcgiRecord(3, 1, make([]byte, 8), 0), out...)
	case 7: // truncated header
		return append(out, 1, 6, 0)
	case 8: // nothing
		return nil
	case 10: // records with maximal content and padding
		big := bytes.Repeat([]byte("Z"), 65535)
		return append(append(out, fcgiRecord(6, 1, big, 255)...), end...)
	}
	return append(out, end...)
}

func TestE2E(t *testing.T) {
	if vt.ReplayPath() != "" {
		t.Skip("replay mode")
	}
	rapid.Check(t, func(t *rapid.T) {
		c := &e2eCase{}
		n := rapid.IntRange(2, 10).Draw(t, "n")
		for i := 0; i < n; i++ {
			c.Reqs = append(c.Reqs, genRawRequest(t, fmt.Sprintf("r%d", i)))
		}
		nt, err := runE2E(c)
		classes := []string{}
		for _, r := range c.Reqs {
			if r.Reply != nil {
				classes = append(classes, "hostile-fastcgi")
				break
			}
		}
		vt.Record("e2e", c, nt > 0, classes...)
		vt.Extra("e2e", "requests", len(c.Reqs))
		vt.Extra("e2e", "requests_past_the_http_parser", nt)
		vt.Check(t, "e2e", c, err)
	})
}

func replayCase(rf *vt.ReplayFile) error {
	switch rf.Sub {
	case "hello", "fuzz-hello":
		var c helloCase
		if err := vt.Decode(rf, &c); err != nil {
			return err
		}
		_, err := runHello(&c)
		return err
	case "listener":
		var c listenerCase
		if err := vt.Decode(rf, &c); err != nil {
			return err
		}
		for i := 0; i < 10; i++ {
			if _, err := runListener(&c); err != nil {
				return err
			}
		}
		return nil
	case "segmentation":
		var c segCase
		if err := vt.Decode(rf, &c); err != nil {
			return err
		}
		_, err := runSeg(&c)
		return err
	case "useragent":
		var c uaCase
		if err := vt.Decode(rf, &c); err != nil {
			return err
		}
		_, err := runUA(&c)
		return err
	case "link":
		var c linkCase
		if err := vt.Decode(rf, &c); err != nil {
			return err
		}
		_, err := runLink(&c)
		return err
	case "e2e":
		var c e2eCase
		if err := vt.Decode(rf, &c); err != nil {
			return err
		}
		_, err := runE2E(&c)
		return err
	}
	return fmt.Errorf("HARNESS: unknown sub %q", rf.Sub)
}

func TestReplay(t *testing.T) { vt.RunReplay(t, replayCase) }
func TestCorpus(t *testing.T) { vt.RunCorpus(t, replayCase) }
