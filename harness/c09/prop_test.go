package c09

import (
	"bytes"
	"encoding/base64"
	"fmt"
	"net/http"
	"net/http/httptest"
	"os"
	"path/filepath"
	"reflect"
	"sort"
	"strings"
	"sync"
	"sync/atomic"
	"testing"

	"github.com/tmpim/casket"
	"pgregory.net/rapid"

	"verif/harness/internal/fixture"
	"verif/harness/internal/srv"
	"verif/harness/internal/vt"
)

func TestMain(m *testing.M) {
	vt.Property = "C09"
	vt.Main(m)
}

var (
	once    sync.Once
	tree    *fixture.Tree
	backend *httptest.Server
)

func setup() {
	once.Do(func() {
		var err error
		tree, err = fixture.Build(filepath.Join(vt.WorkDir, "c09"))
		if err != nil {
			panic(err)
		}
		backend = httptest.NewServer(http.HandlerFunc(func(w http.ResponseWriter, r *http.Request) {
			w.Header().Set("Content-Type", "text/plain")
			w.Header().Set("X-From-Backend", "yes")
			fmt.Fprintf(w, "backend saw %s %s\n", r.Method, r.URL.Path)
		}))
	})
}

// candidate lines; {ROOT} {DIR} {BACKEND} are substituted.  Several lines of
// the same directive keep their relative order under permutation.
var lines = []string{
	"index idx.html index.html",
	"limits 64KB",
	"timeouts 30s",
	"request_id",
	`log / {DIR}/access.log "{method} {uri} {status} {size}"`,
	`log /secret {DIR}/secret.log "{method} {uri} {status}"`,
	"rewrite /alias /secret/s1.txt",
	"rewrite /r2 /public/p1.txt",
	"rewrite /teapot-alias /teapot",
	"ext .txt .html",
	"gzip",
	"header / X-A one",
	"header /secret X-B two",
	"header /public +X-A second",
	"header / -X-From-Backend",
	"errors {DIR}/errors.log {\n\t\t404 {ROOT}/public/p1.txt\n\t}",
	"basicauth /secret alice wonder",
	"basicauth /public/readme.md bob builder",
	"redir /moved /public/p1.txt 301",
	"redir /secret/r /public/p1.txt 302",
	"status 418 /teapot",
	"status 404 /secret/hide",
	"mime .txt text/x-custom",
	"internal /internal",
	"templates /public .html",
	"proxy /papi {BACKEND}",
	"proxy /secret/api {BACKEND}",
	"markdown /public",
	"browse /noindex",
	"tryfiles {path} {path}/ /index.html",
	// a quoted argument continued over a line end inside the quotes, last token of its line
	"log /public {DIR}/pub.log \"{method} \\\n{uri} {status}\"",
}

func dirOf(line string) string { return strings.Fields(line)[0] }

type Case struct {
	Lines []int `json:"lines"` // indexes into lines, in written order
	Perm  []int `json:"perm"`  // a permutation of positions keeping same-directive lines in relative order
	// Neighbour: lines of a second server block (another host on the same listener) that accompanies the
	// reordered block, before or after it; what a site does must not depend on its neighbours either
	Neighbour      []int `json:"neighbour,omitempty"`
	NeighbourFirst bool  `json:"neighbour_first,omitempty"`
}

func block(host string, idx []int, dir string) string {
	setup()
	var sb strings.Builder
	fmt.Fprintf(&sb, "http://%s:0 {\n\troot %s\n", host, tree.Root)
	for _, i := range idx {
		l := lines[i]
		l = strings.ReplaceAll(l, "{ROOT}", tree.Root)
		l = strings.ReplaceAll(l, "{DIR}", dir)
		l = strings.ReplaceAll(l, "{BACKEND}", backend.URL)
		sb.WriteString("\t" + l + "\n")
	}
	sb.WriteString("}\n")
	return sb.String()
}

type breq struct {
	Method, Target, AE, Auth, Body string
}

func basic(u, p string) string { return "Basic " + base64.StdEncoding.EncodeToString([]byte(u+":"+p)) }

var battery = []breq{
	{"GET", "/", "", "", ""}, {"GET", "/index.html", "gzip", "", ""}, {"GET", "/a.txt", "", "", ""}, {"GET", "/a.txt", "gzip", "", ""}, {"GET", "/a", "", "", ""}, {"HEAD", "/a.txt", "", "", ""},
	{"GET", "/dir/", "", "", ""}, {"GET", "/dir", "", "", ""}, {"GET", "/noindex/", "", "", ""}, {"GET", "/noindex/", "gzip", "", ""}, {"GET", "/missing", "", "", ""}, {"GET", "/missing", "gzip", "", ""},
	{"GET", "/secret/s1.txt", "", "", ""}, {"GET", "/secret/s1.txt", "", basic("alice", "wonder"), ""}, {"GET", "/secret/s1.txt", "", basic("alice", "nope"), ""}, {"GET", "/alias", "", "", ""}, {"GET", "/alias", "", basic("alice", "wonder"), ""},
	{"GET", "/secret/r", "", "", ""}, {"GET", "/secret/r", "", basic("alice", "wonder"), ""}, {"GET", "/secret/hide", "", "", ""}, {"GET", "/secret/hide", "", basic("alice", "wonder"), ""}, {"GET", "/secret/api/x", "", "", ""}, {"GET", "/secret/api/x", "", basic("alice", "wonder"), ""},
	{"GET", "/moved", "", "", ""}, {"GET", "/r2", "", "", ""}, {"GET", "/teapot", "", "", ""}, {"GET", "/teapot-alias", "", "", ""}, {"GET", "/internal/i1.txt", "", "", ""}, {"GET", "/papi/z", "", "", ""}, {"GET", "/papi/z", "gzip", "", ""},
	{"GET", "/public/p1.txt", "", "", ""}, {"GET", "/public/p1", "", "", ""}, {"GET", "/public/tpl.html", "", "", ""}, {"GET", "/public/readme.md", "", "", ""}, {"GET", "/public/readme.md", "", basic("bob", "builder"), ""},
	{"POST", "/a.txt", "", "", "x=1"}, {"POST", "/papi/post", "", "", "payload"}, {"DELETE", "/noindex/", "", "", ""}, {"OPTIONS", "/secret/s1.txt", "", "", ""}, {"GET", "/dir/sub/deep/", "", "", ""}, {"GET", "/b", "", "", ""},
}

type bresp struct {
	Status int
	Header map[string][]string
	Body   string
}

var seq int64

func runBlock(idx []int, tag string) ([]bresp, map[string]string, error) {
	return runBlocks(idx, tag, nil, false)
}

func runBlocks(idx []int, tag string, neighbour []int, neighbourFirst bool) ([]bresp, map[string]string, error) {
	setup()
	dir := filepath.Join(vt.WorkDir, fmt.Sprintf("c09-%d-%s", atomic.AddInt64(&seq, 1), tag))
	os.MkdirAll(dir, 0o755)
	defer os.RemoveAll(dir)
	cf := block("localhost", idx, dir)
	if len(neighbour) > 0 {
		ndir := filepath.Join(dir, "neighbour")
		os.MkdirAll(ndir, 0o755)
		if neighbourFirst {
			cf = block("neighbour.test", neighbour, ndir) + cf
		} else {
			cf += block("neighbour.test", neighbour, ndir)
		}
	}
	inst, err := casket.Start(casket.CasketfileInput{Contents: []byte(cf), Filepath: filepath.Join(tree.Base, "Casketfile"), ServerTypeName: "http"})
	if err != nil {
		srv.Stop(inst)
		return nil, nil, fmt.Errorf("START: %v\n%s", err, cf)
	}
	stopped := false
	defer func() {
		if !stopped {
			srv.Stop(inst)
		}
	}()
	addr := srv.Loopback(srv.Addrs(inst)[0])
	var out []bresp
	for _, q := range battery {
		hdr := [][2]string{{"Connection", "close"}}
		if q.AE != "" {
			hdr = append(hdr, [2]string{"Accept-Encoding", q.AE})
		}
		if q.Auth != "" {
			hdr = append(hdr, [2]string{"Authorization", q.Auth})
		}
		var body []byte
		if q.Body != "" {
			body = []byte(q.Body)
		}
		resp, err := srv.Once(addr, q.Method, srv.Request(q.Method, q.Target, "localhost", hdr, body))
		if err != nil {
			out = append(out, bresp{Status: -1, Body: "transport error: " + err.Error()})
			continue
		}
		b := resp.Body
		if resp.Header.Get("Content-Encoding") == "gzip" && len(b) > 0 {
			if d, err := fixture.Gunzip(b); err == nil {
				b = d
			}
		}
		h := map[string][]string{}
		for k, v := range resp.Header {
			switch k {
			case "Date", "X-Request-Id", "Content-Length":
				continue
			}
			vv := append([]string{}, v...)
			sort.Strings(vv)
			h[k] = vv
		}
		body2 := string(b)
		if strings.HasPrefix(q.Target, "/debug") {
			body2 = ""
		}
		// backend URL/port differs never (same backend); listing pages embed nothing instance-specific
		out = append(out, bresp{Status: resp.Status, Header: h, Body: body2})
	}
	srv.Stop(inst)
	stopped = true
	logs := map[string]string{}
	for _, name := range []string{"access.log", "secret.log"} {
		if b, err := os.ReadFile(filepath.Join(dir, name)); err == nil {
			logs[name] = string(b)
		}
	}
	return out, logs, nil
}

func runCase(c *Case) (bool, error) {
	written := c.Lines
	permuted := make([]int, len(c.Lines))
	for i, p := range c.Perm {
		permuted[i] = c.Lines[p]
	}
	a, la, err := runBlock(written, "a")
	if err != nil {
		if strings.HasPrefix(err.Error(), "START") {
			return false, fmt.Errorf("HARNESS: the generated block does not start: %v", err)
		}
		return false, err
	}
	b, lb, err := runBlocks(permuted, "b", c.Neighbour, c.NeighbourFirst)
	if err != nil {
		if strings.HasPrefix(err.Error(), "START") {
			return false, fmt.Errorf("the block starts as written but not with its lines reordered (order %v): %v", c.Perm, err)
		}
		return false, err
	}
	show := func(idx []int) string {
		var s []string
		for _, i := range idx {
			s = append(s, strings.SplitN(lines[i], "\n", 2)[0])
		}
		return strings.Join(s, " | ")
	}
	for i := range battery {
		if !reflect.DeepEqual(a[i], b[i]) {
			return true, fmt.Errorf("request %s %s (AE %q, auth %v) is answered differently after reordering the block's lines (and, if any, next to the neighbour block):\n written  [%s]\n  -> %d %v %q\n reordered [%s]\n  -> %d %v %q\n neighbour block: "+fmt.Sprint(c.NeighbourFirst, c.Neighbour)+"",
				battery[i].Method, battery[i].Target, battery[i].AE, battery[i].Auth != "", show(written), a[i].Status, a[i].Header, clip(a[i].Body), show(permuted), b[i].Status, b[i].Header, clip(b[i].Body))
		}
	}
	if !reflect.DeepEqual(la, lb) {
		return true, fmt.Errorf("access logs differ after reordering the block's lines:\n written [%s]\n%v\n reordered [%s]\n%v", show(written), la, show(permuted), lb)
	}
	// non-trivial: the permutation inverts a pair of different directives, in a block with >= 3 distinct directives
	distinct := map[string]bool{}
	for _, i := range c.Lines {
		distinct[dirOf(lines[i])] = true
	}
	inverted := false
	for i := 0; i < len(c.Perm); i++ {
		for j := i + 1; j < len(c.Perm); j++ {
			if c.Perm[i] > c.Perm[j] {
				inverted = true
			}
		}
	}
	return inverted && len(distinct) >= 3, nil
}

func clip(s string) string {
	if len(s) > 100 {
		return s[:100] + "..."
	}
	return s
}

func genCase(t *rapid.T) *Case {
	n := rapid.IntRange(3, 12).Draw(t, "n")
	picked := rapid.SliceOfNDistinct(rapid.IntRange(0, len(lines)-1), n, n, func(i int) int { return i }).Draw(t, "lines")
	c := &Case{Lines: picked}
	// a random permutation, then repair: lines of the same directive keep their relative order
	perm := rapid.Permutation(identity(len(picked))).Draw(t, "perm")
	byDir := map[string][]int{}
	for _, p := range perm {
		d := dirOf(lines[picked[p]])
		byDir[d] = append(byDir[d], p)
	}
	for d := range byDir {
		sort.Ints(byDir[d])
	}
	next := map[string]int{}
	for k, p := range perm {
		d := dirOf(lines[picked[p]])
		perm[k] = byDir[d][next[d]]
		next[d]++
	}
	c.Perm = perm
	if rapid.Bool().Draw(t, "neighbour") {
		nn := rapid.IntRange(1, 4).Draw(t, "nn")
		c.Neighbour = rapid.SliceOfNDistinct(rapid.IntRange(0, len(lines)-1), nn, nn, func(i int) int { return i }).Draw(t, "nlines")
		c.NeighbourFirst = rapid.Bool().Draw(t, "nfirst")
	}
	return c
}

func identity(n int) []int {
	out := make([]int, n)
	for i := range out {
		out[i] = i
	}
	return out
}

func TestPermute(t *testing.T) {
	if vt.ReplayPath() != "" {
		t.Skip("replay mode")
	}
	rapid.Check(t, func(t *rapid.T) {
		c := genCase(t)
		nt, err := runCase(c)
		var classes []string
		for _, i := range c.Lines {
			classes = append(classes, "dir:"+dirOf(lines[i]))
		}
		vt.Record("permute", c, nt, classes...)
		vt.Check(t, "permute", c, err)
	})
}

// ---------------------------------------------------------------------------
// order pins: the documented order of the standard directives, and
// behavioural witnesses for the pairs the statement names

var documentedOrder = []string{"root", "index", "bind", "limits", "timeouts", "tls", "on", "request_id", "log", "tryfiles", "rewrite", "ext", "gzip", "header", "errors", "basicauth", "redir", "status", "mime", "internal", "pprof", "expvar", "push", "templates", "proxy", "fastcgi", "websocket", "markdown", "browse"}

type pinCase struct {
	Name string `json:"name"`
}

// runPins checks the order pins and witnesses, then lets the process reject
// a few configurations (misspelt directive, bad argument, unbalanced brace:
// what a refused reload or a -validate run does) and checks them again: the
// documented order must not depend on what the process has parsed before.
func runPins() error {
	if err := runPinsOnce(); err != nil {
		return err
	}
	for _, bad := range []string{
		"http://localhost:0 {\n\tbasicaut /x u p\n}\n",
		"http://localhost:0 {\n\tgzip\n\tzzz_last_directive\n\taaa_first_directive\n}\n",
		"http://localhost:0 {\n\tstatus abc /x\n}\n",
		"http://localhost:0 {\n\tgzip {\n",
	} {
		in := casket.CasketfileInput{Contents: []byte(bad), Filepath: "Casketfile", ServerTypeName: "http"}
		if err := casket.ValidateAndExecuteDirectives(in, nil, true); err == nil {
			return fmt.Errorf("HARNESS: a configuration meant to be rejected was accepted: %q", bad)
		}
		if inst, err := casket.Start(in); err == nil {
			srv.Stop(inst)
			return fmt.Errorf("HARNESS: a configuration meant to be rejected started: %q", bad)
		}
	}
	if err := runPinsOnce(); err != nil {
		return fmt.Errorf("after the process had rejected some configurations: %v", err)
	}
	return nil
}

func runPinsOnce() error {
	setup()
	pos := map[string]int{}
	for i, d := range casket.ValidDirectives("http") {
		pos[d] = i
	}
	last := -1
	for _, d := range documentedOrder {
		p, ok := pos[d]
		if !ok {
			return fmt.Errorf("standard directive %q is missing from the directive list", d)
		}
		if p < last {
			return fmt.Errorf("directive %q is out of the documented order (position %d, the previous documented directive is at %d); documented order: %v", d, p, last, documentedOrder)
		}
		last = p
	}
	// pairs named by the statement
	before := func(a, b string) error {
		if pos[a] >= pos[b] {
			return fmt.Errorf("directive %q must take effect before %q", a, b)
		}
		return nil
	}
	content := []string{"proxy", "fastcgi", "websocket", "markdown", "browse", "templates"}
	for _, c := range content {
		for _, a := range []string{"basicauth", "redir", "internal", "log", "gzip", "header", "errors"} {
			if err := before(a, c); err != nil {
				return err
			}
		}
	}
	for _, a := range []string{"tryfiles", "rewrite", "ext"} {
		if err := before(a, "basicauth"); err != nil {
			return err
		}
	}
	// behavioural witnesses, written in an order different from the documented one
	all := []int{}
	for i := len(lines) - 1; i >= 0; i-- {
		if strings.HasPrefix(lines[i], "tryfiles") || strings.HasPrefix(lines[i], "basicauth /public") {
			continue
		}
		all = append(all, i)
	}
	resp, logs, err := runBlock(all, "w")
	if err != nil {
		return fmt.Errorf("HARNESS: witness block: %v", err)
	}
	get := func(m, target, ae string, auth bool) bresp {
		for i, q := range battery {
			if q.Method == m && q.Target == target && q.AE == ae && (q.Auth != "") == auth && (q.Auth == "" || strings.Contains(q.Auth, basic("alice", "wonder")[6:])) {
				return resp[i]
			}
		}
		return bresp{Status: -2}
	}
	type wit struct {
		what string
		ok   bool
		got  interface{}
	}
	w := []wit{
		{"a request rewritten into a protected scope is challenged (rewrite before basicauth)", get("GET", "/alias", "", false).Status == 401, get("GET", "/alias", "", false).Status},
		{"a redirect under a protected scope is not revealed without credentials (basicauth before redir)", get("GET", "/secret/r", "", false).Status == 401, get("GET", "/secret/r", "", false).Status},
		{"with credentials the redirect under the protected scope is issued", get("GET", "/secret/r", "", true).Status == 302, get("GET", "/secret/r", "", true).Status},
		{"a status rule under a protected scope is not revealed without credentials (basicauth before status)", get("GET", "/secret/hide", "", false).Status == 401, get("GET", "/secret/hide", "", false).Status},
		{"a proxied path under a protected scope is challenged (basicauth before proxy)", get("GET", "/secret/api/x", "", false).Status == 401, get("GET", "/secret/api/x", "", false).Status},
		{"internal paths are hidden before the static file server", get("GET", "/internal/i1.txt", "", false).Status == 404, get("GET", "/internal/i1.txt", "", false).Status},
		{"the error page for a missing file is the configured page, compressed when asked (errors inside gzip)", get("GET", "/missing", "gzip", false).Status == 404 && strings.Contains(get("GET", "/missing", "gzip", false).Body, tree.Files["public/p1.txt"].Token) && len(get("GET", "/missing", "gzip", false).Header["Content-Encoding"]) == 1, get("GET", "/missing", "gzip", false)},
		{"header rules apply to proxied responses (header around proxy)", len(get("GET", "/papi/z", "", false).Header["X-A"]) > 0 && len(get("GET", "/papi/z", "", false).Header["X-From-Backend"]) == 0, get("GET", "/papi/z", "", false).Header},
		{"a rewritten alias of a status path gets the status (rewrite before status)", get("GET", "/teapot-alias", "", false).Status == 418, get("GET", "/teapot-alias", "", false).Status},
		{"the access log records the final status of error responses (log around errors)", strings.Contains(logs["access.log"], "GET /missing 404 "), logs["access.log"]},
		{"the access log records the 401 of a challenged rewritten request under its original URI", strings.Contains(logs["access.log"], "GET /alias 401 "), ""},
	}
	for _, x := range w {
		if !x.ok {
			return fmt.Errorf("order witness failed: %s; observed %v", x.what, x.got)
		}
	}
	// a bare block: response header rules and the access log with neither errors nor gzip around them.  A
	// missing file ends as an error status that an outer layer turns into the response; the header rule and
	// the log line must be there all the same ("around all content handlers" includes their failures).
	var bare []int
	for i, l := range lines {
		if l == "header / X-A one" || strings.HasPrefix(l, "log / ") {
			bare = append(bare, i)
		}
	}
	bresps, blogs, err := runBlock(bare, "bare")
	if err != nil {
		return fmt.Errorf("HARNESS: bare witness block: %v", err)
	}
	for i, q := range battery {
		if q.Method == "GET" && q.Auth == "" && (q.Target == "/missing" || q.Target == "/a.txt") && q.AE == "" {
			if len(bresps[i].Header["X-A"]) == 0 {
				return fmt.Errorf("order witness failed: a header rule applies to every outcome of the handlers inside it; GET %s answered %d without X-A (block with only header and log): %v", q.Target, bresps[i].Status, bresps[i].Header)
			}
		}
	}
	if !strings.Contains(blogs["access.log"], "GET /missing 404 ") {
		return fmt.Errorf("order witness failed: the access log of a block without errors records the 404 of a missing file; log: %q", blogs["access.log"])
	}
	return nil
}

func TestPins(t *testing.T) {
	if vt.ReplayPath() != "" {
		t.Skip("replay mode")
	}
	err := runPins()
	vt.Record("pins", pinCase{"documented-order"}, true, "pins")
	vt.Record("pins", pinCase{"witnesses"}, true, "pins")
	vt.Check(t, "pins", pinCase{"order-pins"}, err)
}

func replayCase(rf *vt.ReplayFile) error {
	switch rf.Sub {
	case "permute":
		var c Case
		if err := vt.Decode(rf, &c); err != nil {
			return err
		}
		_, err := runCase(&c)
		return err
	case "pins":
		return runPins()
	}
	return fmt.Errorf("HARNESS: unknown sub %q", rf.Sub)
}

func TestReplay(t *testing.T) { vt.RunReplay(t, replayCase) }
func TestCorpus(t *testing.T) { vt.RunCorpus(t, replayCase) }

var _ = bytes.Equal
