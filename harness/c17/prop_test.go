package c17

import (
	"bytes"
	"context"
	"crypto/tls"
	"fmt"
	"io"
	"net"
	"net/http"
	"net/http/httptest"
	"os"
	"path"
	"sort"
	"strings"
	"sync"
	"testing"
	"time"

	"github.com/tmpim/casket"
	"github.com/tmpim/casket/casketfile"
	"github.com/tmpim/casket/caskethttp/httpserver"
	"pgregory.net/rapid"

	"verif/harness/internal/probe"
	"verif/harness/internal/srv"
	"verif/harness/internal/vt"
)

func TestMain(m *testing.M) {
	vt.Property = "C17"
	probe.Register()
	vt.Main(m, "VERIF_NETNS")
}

// ---------------------------------------------------------------------------
// (a) body limits

type Scope struct {
	Path  string `json:"path"`
	Limit int    `json:"limit"`
}

type BodyReq struct {
	Path      string `json:"path"`
	Esc       int    `json:"esc,omitempty"` // percent-encode the Esc-th letter of the path on the wire (0 = none)
	Len       int    `json:"len"`
	Chunks    []int  `json:"chunks,omitempty"` // chunked framing with these chunk sizes (cycled); nil = Content-Length
	ReadSizes []int  `json:"read_sizes"`
}

type BodyCase struct {
	Scopes []Scope   `json:"scopes"`
	Mode   string    `json:"mode"` // probe | proxy | proxy-buffered | proxy-failtimeout (failures are counted against the backend)
	// H2: the site is an HTTPS site and the client speaks HTTP/2; a request with a chunk list then has a body
	// of undeclared length (no content-length header), one without announces its length
	H2 bool `json:"h2,omitempty"`
	Reqs   []BodyReq `json:"reqs"`
}

func makeBody(n int) []byte {
	b := make([]byte, n)
	for i := range b {
		b[i] = byte('A' + (i*11+i/97)%26)
	}
	return b
}

// model: longest matching scope decides (documented matcher: cleaned, case-insensitive prefix)
func matchScope(scopes []Scope, reqPath string) (Scope, bool, int) {
	best, found, n := Scope{}, false, 0
	for _, s := range scopes {
		if pathMatches(reqPath, s.Path) {
			n++
			if !found || len(s.Path) > len(best.Path) {
				best, found = s, true
			}
		}
	}
	return best, found, n
}

// wirePath spells p with its n-th letter percent-encoded: the same resource (RFC 3986 2.3).
func wirePath(p string, n int) string {
	if n <= 0 {
		return p
	}
	k := 0
	for i := 0; i < len(p); i++ {
		if c := p[i]; (c >= 'a' && c <= 'z') || (c >= 'A' && c <= 'Z') {
			k++
			if k == n {
				return fmt.Sprintf("%s%%%02X%s", p[:i], c, p[i+1:])
			}
		}
	}
	return p
}

func pathMatches(p, base string) bool {
	if base == "/" || base == "" {
		return true
	}
	pt := strings.HasSuffix(p, "/")
	bt := strings.HasSuffix(base, "/")
	p = path.Clean(p)
	base = path.Clean(base)
	if pt {
		p += "/"
	}
	if bt {
		base += "/"
	}
	return strings.HasPrefix(strings.ToLower(p), strings.ToLower(base))
}

type recBackend struct {
	mu   sync.Mutex
	got  map[string][]byte
	errs map[string]string
}

func (b *recBackend) ServeHTTP(w http.ResponseWriter, r *http.Request) {
	id := r.Header.Get("X-Case-Id")
	data, err := io.ReadAll(r.Body)
	b.mu.Lock()
	b.got[id] = data
	if err != nil {
		b.errs[id] = err.Error()
	}
	b.mu.Unlock()
	w.Header().Set("X-Backend-Got", fmt.Sprint(len(data)))
	w.WriteHeader(200)
	w.Write([]byte("ok"))
}

func rawRequest(req BodyReq, id string, extra [][2]string, host string) []byte {
	body := makeBody(req.Len)
	var sb bytes.Buffer
	fmt.Fprintf(&sb, "POST %s HTTP/1.1\r\nHost: %s\r\nX-Case-Id: %s\r\n", wirePath(req.Path, req.Esc), host, id)
	for _, kv := range extra {
		fmt.Fprintf(&sb, "%s: %s\r\n", kv[0], kv[1])
	}
	if req.Chunks == nil {
		fmt.Fprintf(&sb, "Content-Length: %d\r\n\r\n", len(body))
		sb.Write(body)
	} else {
		sb.WriteString("Transfer-Encoding: chunked\r\n\r\n")
		off, i := 0, 0
		for off < len(body) {
			n := req.Chunks[i%len(req.Chunks)]
			i++
			if n <= 0 {
				n = 1
			}
			if off+n > len(body) {
				n = len(body) - off
			}
			fmt.Fprintf(&sb, "%x\r\n", n)
			sb.Write(body[off : off+n])
			sb.WriteString("\r\n")
			off += n
		}
		sb.WriteString("0\r\n\r\n")
	}
	return sb.Bytes()
}

var caseSeq int
var caseMu sync.Mutex

func nextID() string {
	caseMu.Lock()
	defer caseMu.Unlock()
	caseSeq++
	return fmt.Sprintf("c%d", caseSeq)
}

func runBody(c *BodyCase) (nontrivial int, err error) {
	var cf strings.Builder
	if c.H2 {
		cf.WriteString("https://localhost:0 {\n\ttls self_signed\n\tlimits {\n")
	} else {
		cf.WriteString("http://localhost:0 {\n\tlimits {\n")
	}
	for _, s := range c.Scopes {
		fmt.Fprintf(&cf, "\t\tbody %s %d\n", s.Path, s.Limit)
	}
	cf.WriteString("\t}\n")
	var backend *httptest.Server
	rb := &recBackend{got: map[string][]byte{}, errs: map[string]string{}}
	switch c.Mode {
	case "probe":
		cf.WriteString("\tzz_probe\n")
	case "proxy", "proxy-buffered", "proxy-failtimeout":
		backend = httptest.NewServer(rb)
		defer backend.Close()
		if c.Mode == "proxy" {
			fmt.Fprintf(&cf, "\tproxy / %s\n", backend.URL)
		} else if c.Mode == "proxy-failtimeout" {
			// a client's oversized body is the client's fault: it must not count against the backend
			fmt.Fprintf(&cf, "\tproxy / %s {\n\t\tfail_timeout 30s\n\t\tmax_fails 1\n\t}\n", backend.URL)
		} else {
			// two hosts + try_duration: the proxy buffers the body before forwarding
			fmt.Fprintf(&cf, "\tproxy / %s %s {\n\t\ttry_duration 300ms\n\t\ttry_interval 5ms\n\t}\n", backend.URL, backend.URL)
		}
	default:
		return 0, fmt.Errorf("HARNESS: mode %q", c.Mode)
	}
	cf.WriteString("}\n")
	inst, e := srv.Start(cf.String(), "")
	if e != nil {
		srv.Stop(inst)
		return 0, fmt.Errorf("HARNESS: start: %v\n%s", e, cf.String())
	}
	defer srv.Stop(inst)
	addr := ""
	for _, a := range srv.Addrs(inst) {
		if srv.PortOf(a) != "80" { // an HTTPS site also gets a redirect listener on :80
			addr = srv.Loopback(a)
		}
	}
	var h2 *http.Client
	if c.H2 {
		if os.Getenv("VERIF_NETNS") != "1" {
			return 0, fmt.Errorf("HARNESS: HTTP/2 cases need a private network namespace")
		}
		tr := &http.Transport{TLSClientConfig: &tls.Config{InsecureSkipVerify: true, ServerName: "localhost", NextProtos: []string{"h2"}}, ForceAttemptHTTP2: true,
			DialContext: func(ctx context.Context, network, _ string) (net.Conn, error) {
				return (&net.Dialer{Timeout: 5 * time.Second}).DialContext(ctx, network, addr)
			}}
		defer tr.CloseIdleConnections()
		h2 = &http.Client{Transport: tr, Timeout: 20 * time.Second}
	}
	for _, req := range c.Reqs {
		scope, limited, nmatch := matchScope(c.Scopes, req.Path)
		if limited && (abs(req.Len-scope.Limit) <= 1 || nmatch >= 2) {
			nontrivial++
		}
		id := nextID()
		body := makeBody(req.Len)
		var extra [][2]string
		if c.Mode == "probe" {
			extra = append(extra, [2]string{"X-Probe", probe.Encode(&probe.Script{ID: id, ReadSizes: req.ReadSizes, Status: 200, Chunks: [][]byte{[]byte("done")}})})
		}
		// fresh connection: an over-limit request may close it
		var resp *srv.Resp
		if h2 != nil {
			var rd io.Reader = bytes.NewReader(body)
			if req.Chunks != nil {
				rd = struct{ io.Reader }{rd} // a plain reader: net/http cannot tell its length and sends no content-length
			}
			hreq, e := http.NewRequest("POST", "https://localhost"+wirePath(req.Path, req.Esc), rd)
			if e != nil {
				return nontrivial, fmt.Errorf("HARNESS: %v", e)
			}
			hreq.Header.Set("X-Case-Id", id)
			for _, kv := range extra {
				hreq.Header.Set(kv[0], kv[1])
			}
			hresp, e := h2.Do(hreq)
			if e != nil {
				// an over-limit upload may be cut by a stream reset before the response is read: nothing to compare then
				if limited && req.Len > scope.Limit {
					probe.Take(id)
					continue
				}
				return nontrivial, fmt.Errorf("request %+v over HTTP/2: no response: %v", req, e)
			}
			b, _ := io.ReadAll(hresp.Body)
			hresp.Body.Close()
			resp = &srv.Resp{Status: hresp.StatusCode, Header: hresp.Header, Body: b}
		} else {
			var e error
			resp, e = srv.Once(addr, "POST", rawRequest(req, id, extra, "localhost"))
			if e != nil {
				return nontrivial, fmt.Errorf("request %+v: no well-formed response: %v", req, e)
			}
		}
		over := limited && req.Len > scope.Limit
		desc := fmt.Sprintf("request %+v (scope %+v, matched=%v)", req, scope, limited)
		switch c.Mode {
		case "probe":
			res := probe.Take(id)
			if res == nil {
				return nontrivial, fmt.Errorf("%s: inner handler never ran (status %d)", desc, resp.Status)
			}
			if res.AfterErr > 0 {
				return nontrivial, fmt.Errorf("%s: handler obtained %d more body bytes after the too-large error", desc, res.AfterErr)
			}
			if !over {
				if !bytes.Equal(res.Read, body) || res.ReadErr != "EOF" {
					return nontrivial, fmt.Errorf("%s: body within the limit must arrive intact with EOF; handler read %d bytes (equal=%v), ended with %q", desc, len(res.Read), bytes.Equal(res.Read, body), res.ReadErr)
				}
			} else {
				if len(res.Read) != scope.Limit || !bytes.Equal(res.Read, body[:scope.Limit]) {
					return nontrivial, fmt.Errorf("%s: over-limit body must be cut at exactly %d bytes; handler received %d bytes", desc, scope.Limit, len(res.Read))
				}
				if !strings.Contains(res.ReadErr, "request body too large") {
					return nontrivial, fmt.Errorf("%s: over-limit body must end with the too-large error, got %q", desc, res.ReadErr)
				}
			}
		default:
			rb.mu.Lock()
			got, seen := rb.got[id]
			rb.mu.Unlock()
			if !over {
				if resp.Status != 200 || !seen || !bytes.Equal(got, body) {
					return nontrivial, fmt.Errorf("%s via %s: body within the limit must reach the backend intact; status %d, backend saw %d bytes (seen=%v)", desc, c.Mode, resp.Status, len(got), seen)
				}
			} else {
				if seen && len(got) > scope.Limit {
					return nontrivial, fmt.Errorf("%s via %s: backend received %d body bytes, more than the limit", desc, c.Mode, len(got))
				}
				if resp.Status != 413 {
					return nontrivial, fmt.Errorf("%s via %s: over-limit body must be answered 413 when proxied, got %d %q", desc, c.Mode, resp.Status, clip(string(resp.Body)))
				}
			}
		}
	}
	return nontrivial, nil
}

func clip(s string) string {
	if len(s) > 120 {
		return s[:120] + "..."
	}
	return s
}

func abs(x int) int {
	if x < 0 {
		return -x
	}
	return x
}

var scopePaths = []string{"/", "/a", "/a/b", "/up", "/a/b/c", "/up/", "/A", "/A/b", "/a/B/c", "/UP", "/Up/load"}
var limitVals = []int{1, 2, 5, 16, 63, 64, 1000, 4095, 4096, 4097, 32767, 32768, 32769}

func genBodyCase(t *rapid.T) *BodyCase {
	c := &BodyCase{}
	c.Mode = rapid.SampledFrom([]string{"probe", "probe", "proxy", "proxy-buffered", "proxy-failtimeout"}).Draw(t, "mode")
	c.H2 = rapid.IntRange(0, 4).Draw(t, "h2") == 0
	ns := rapid.IntRange(1, 4).Draw(t, "nscopes")
	seen := map[string]bool{}
	for i := 0; i < ns; i++ {
		p := rapid.SampledFrom(scopePaths).Draw(t, fmt.Sprintf("sp%d", i))
		if seen[strings.ToLower(path.Clean(p))] {
			continue
		}
		seen[strings.ToLower(path.Clean(p))] = true
		c.Scopes = append(c.Scopes, Scope{Path: p, Limit: rapid.SampledFrom(limitVals).Draw(t, fmt.Sprintf("sl%d", i))})
	}
	nr := rapid.IntRange(1, 6).Draw(t, "nreqs")
	for i := 0; i < nr; i++ {
		lb := fmt.Sprintf("r%d", i)
		var r BodyReq
		r.Path = rapid.SampledFrom([]string{"/", "/a", "/a/x", "/a/b", "/a/b/c/d", "/up", "/up/load", "/other", "/A/B", "/a//b", "/x/../a/b", "/upx"}).Draw(t, lb+"p")
		if rapid.IntRange(0, 3).Draw(t, lb+"escq") == 0 {
			r.Esc = rapid.IntRange(1, 4).Draw(t, lb+"esc")
		}
		sc, ok, _ := matchScope(c.Scopes, r.Path)
		base := 100
		if ok {
			base = sc.Limit
		}
		r.Len = rapid.SampledFrom([]int{base - 1, base, base + 1, 0, 2 * base, base + 7, 1}).Draw(t, lb+"len")
		if r.Len < 0 {
			r.Len = 0
		}
		if rapid.Bool().Draw(t, lb+"chunked") {
			r.Chunks = rapid.SliceOfN(rapid.SampledFrom([]int{1, 2, 7, base, base + 1, 1000, 40000}), 1, 3).Draw(t, lb+"cs")
		}
		r.ReadSizes = rapid.SliceOfN(rapid.SampledFrom([]int{1, 2, base, base + 1, base + 2, 512, 32768, 65536}), 1, 3).Draw(t, lb+"rs")
		c.Reqs = append(c.Reqs, r)
	}
	return c
}

func TestBody(t *testing.T) {
	if vt.ReplayPath() != "" {
		t.Skip("replay mode")
	}
	rapid.Check(t, func(t *rapid.T) {
		c := genBodyCase(t)
		nt, err := runBody(c)
		classes := []string{"mode:" + c.Mode}
		for _, r := range c.Reqs {
			if r.Chunks != nil {
				classes = append(classes, "chunked")
				break
			}
		}
		vt.Record("body", c, nt > 0, classes...)
		vt.Extra("body", "requests", len(c.Reqs))
		vt.Extra("body", "nontrivial_requests", nt)
		vt.Check(t, "body", c, err)
	})
}

// ---------------------------------------------------------------------------
// (b) listener-wide settings: strictest of the co-hosted sites' values

type SiteLimits struct {
	Header  string `json:"header"` // "" unset, else a size like "2KB"
	Read    string `json:"read"`   // "" unset, "none", or duration
	HeaderT string `json:"headert"`
	Write   string `json:"write"`
	Idle    string `json:"idle"`
}

type ListenerCase struct {
	Sites []SiteLimits `json:"sites"`
}

func siteConfigFor(i int, s SiteLimits) (*httpserver.SiteConfig, error) {
	var sb strings.Builder
	if s.Header != "" {
		fmt.Fprintf(&sb, "limits {\n header %s\n}\n", s.Header)
	}
	tv := [][2]string{{"read", s.Read}, {"header", s.HeaderT}, {"write", s.Write}, {"idle", s.Idle}}
	any := false
	for _, kv := range tv {
		if kv[1] != "" {
			any = true
		}
	}
	if any {
		sb.WriteString("timeouts {\n")
		for _, kv := range tv {
			if kv[1] != "" {
				fmt.Fprintf(&sb, " %s %s\n", kv[0], kv[1])
			}
		}
		sb.WriteString("}\n")
	}
	text := sb.String()
	c := casket.NewTestController("http", "")
	c.Key = fmt.Sprintf("site%d.test:8080", i)
	// run the real directive setups, each on its own tokens, on one controller
	for _, dir := range []string{"limits", "timeouts"} {
		start := strings.Index(text, dir+" {")
		if start < 0 {
			continue
		}
		end := start + strings.Index(text[start:], "}\n") + 2
		c.Dispenser = casketfile.NewDispenser("Testfile", strings.NewReader(text[start:end]))
		setup, err := casket.DirectiveAction("http", dir)
		if err != nil {
			return nil, fmt.Errorf("HARNESS: %v", err)
		}
		if err := setup(c); err != nil {
			return nil, fmt.Errorf("HARNESS: setup %s on %q: %v", dir, text[start:end], err)
		}
	}
	return httpserver.GetConfig(c), nil
}

func parseDur(s string) (time.Duration, bool, bool) { // value, set, positive
	if s == "" {
		return 0, false, false
	}
	if s == "none" {
		return 0, true, false
	}
	d, _ := time.ParseDuration(s)
	return d, true, d > 0
}

func strictest(vals []string, def time.Duration) time.Duration {
	var min time.Duration
	anySet, anyPos := false, false
	for _, v := range vals {
		d, set, pos := parseDur(v)
		if !set {
			continue
		}
		anySet = true
		if pos && (!anyPos || d < min) {
			min, anyPos = d, true
		}
	}
	if anyPos {
		return min
	}
	if anySet {
		return 0
	}
	return def
}

func parseSize(s string) int {
	s = strings.ToUpper(s)
	mult := 1
	switch {
	case strings.HasSuffix(s, "KB"):
		mult, s = 1024, strings.TrimSuffix(s, "KB")
	case strings.HasSuffix(s, "MB"):
		mult, s = 1024*1024, strings.TrimSuffix(s, "MB")
	case strings.HasSuffix(s, "B"):
		s = strings.TrimSuffix(s, "B")
	}
	n := 0
	fmt.Sscan(s, &n)
	return n * mult
}

func runListener(c *ListenerCase) (bool, error) {
	var group []*httpserver.SiteConfig
	for i, s := range c.Sites {
		cfg, err := siteConfigFor(i, s)
		if err != nil {
			return false, err
		}
		group = append(group, cfg)
	}
	server, err := httpserver.NewServer("127.0.0.1:0", group)
	if err != nil {
		return false, fmt.Errorf("HARNESS: NewServer: %v", err)
	}
	hs := server.Server
	var rd, hd, wr, id, hb []string
	for _, s := range c.Sites {
		rd, hd, wr, id, hb = append(rd, s.Read), append(hd, s.HeaderT), append(wr, s.Write), append(id, s.Idle), append(hb, s.Header)
	}
	nontrivial := false
	for _, vals := range [][]string{rd, hd, wr, id, hb} {
		distinct := map[string]bool{}
		for _, v := range vals {
			if v != "" {
				distinct[v] = true
			}
		}
		if len(distinct) >= 2 || (distinct["none"] && len(vals) >= 2) {
			nontrivial = true
		}
	}
	check := func(name string, got time.Duration, vals []string, def time.Duration) error {
		if want := strictest(vals, def); got != want {
			return fmt.Errorf("%s timeout of the shared listener is %v; sites configured %q, the strictest is %v (default %v applies only if no site sets it)", name, got, vals, want, def)
		}
		return nil
	}
	if err := check("read", hs.ReadTimeout, rd, 0); err != nil {
		return nontrivial, err
	}
	if err := check("header", hs.ReadHeaderTimeout, hd, 0); err != nil {
		return nontrivial, err
	}
	if err := check("write", hs.WriteTimeout, wr, 0); err != nil {
		return nontrivial, err
	}
	if err := check("idle", hs.IdleTimeout, id, 5*time.Minute); err != nil {
		return nontrivial, err
	}
	wantHdr := 0
	for _, v := range hb {
		if v == "" {
			continue
		}
		if n := parseSize(v); wantHdr == 0 || n < wantHdr {
			wantHdr = n
		}
	}
	if hs.MaxHeaderBytes != wantHdr {
		return nontrivial, fmt.Errorf("MaxHeaderBytes of the shared listener is %d; sites configured %q, the strictest is %d", hs.MaxHeaderBytes, hb, wantHdr)
	}
	return nontrivial, nil
}

var durVals = []string{"", "", "none", "0", "2s", "5s", "30s", "1m", "10m"}
var hdrVals = []string{"", "", "1KB", "2KB", "4096", "8kb", "1MB", "512"}

func TestListener(t *testing.T) {
	if vt.ReplayPath() != "" {
		t.Skip("replay mode")
	}
	rapid.Check(t, func(t *rapid.T) {
		c := &ListenerCase{}
		n := rapid.IntRange(1, 4).Draw(t, "n")
		for i := 0; i < n; i++ {
			lb := fmt.Sprintf("s%d", i)
			c.Sites = append(c.Sites, SiteLimits{
				Header:  rapid.SampledFrom(hdrVals).Draw(t, lb+"h"),
				Read:    rapid.SampledFrom(durVals).Draw(t, lb+"r"),
				HeaderT: rapid.SampledFrom(durVals).Draw(t, lb+"ht"),
				Write:   rapid.SampledFrom(durVals).Draw(t, lb+"w"),
				Idle:    rapid.SampledFrom(durVals).Draw(t, lb+"i"),
			})
		}
		nt, err := runListener(c)
		var classes []string
		for _, s := range c.Sites {
			if s.Read == "none" || s.HeaderT == "none" || s.Write == "none" || s.Idle == "none" || s.Read == "0" {
				classes = append(classes, "has-none")
				break
			}
		}
		classes = append(classes, fmt.Sprintf("sites=%d", n))
		vt.Record("listener", c, nt, classes...)
		vt.Check(t, "listener", c, err)
	})
}

func replayCase(rf *vt.ReplayFile) error {
	switch rf.Sub {
	case "body":
		var c BodyCase
		if err := vt.Decode(rf, &c); err != nil {
			return err
		}
		_, err := runBody(&c)
		return err
	case "listener":
		var c ListenerCase
		if err := vt.Decode(rf, &c); err != nil {
			return err
		}
		_, err := runListener(&c)
		return err
	}
	if rf.Sub == "listener-e2e" {
		var c E2ECase
		if err := vt.Decode(rf, &c); err != nil {
			return err
		}
		_, err := runE2E(&c)
		return err
	}
	return fmt.Errorf("HARNESS: unknown sub %q", rf.Sub)
}

func TestReplay(t *testing.T) { vt.RunReplay(t, replayCase) }
func TestCorpus(t *testing.T) { vt.RunCorpus(t, replayCase) }

var _ = sort.Strings
