package c17

import (
	"bufio"
	"fmt"
	"net"
	"net/http"
	"os"
	"strings"
	"testing"
	"time"

	"pgregory.net/rapid"

	"verif/harness/internal/srv"
	"verif/harness/internal/vt"
)

// listener-e2e: the header-size limit of every listener as a client sees it, for server blocks
// written with several keys spread over two ports.  The in-process `listener` sub-check calls the
// directive setups on test controllers; this one goes through the real load path (one setup call per
// key of a block, shared server-block storage, grouping by listen address).

type Block struct {
	Ports  []int  `json:"ports"`  // one key per entry: 0 or 1 = which of the two ports
	Header string `json:"header"` // "" | 1KB | 16KB | 64KB
	Short  bool   `json:"short,omitempty"` // written as `limits <size>` (sets header and body)
}

type E2ECase struct {
	Blocks []Block `json:"blocks"`
}

var e2ePorts = [2]string{"8171", "8172"}

var hdrBytes = map[string]int{"": 1 << 20, "1KB": 1 << 10, "16KB": 16 << 10, "64KB": 64 << 10}

func e2eCasketfile(c *E2ECase) string {
	var sb strings.Builder
	host := 0
	for _, b := range c.Blocks {
		var keys []string
		for _, p := range b.Ports {
			keys = append(keys, fmt.Sprintf("http://h%d.test:%s", host, e2ePorts[p&1]))
			host++
		}
		sb.WriteString(strings.Join(keys, ", ") + " {\n")
		if b.Header != "" {
			if b.Short {
				fmt.Fprintf(&sb, "\tlimits %s\n", b.Header)
			} else {
				fmt.Fprintf(&sb, "\tlimits {\n\t\theader %s\n\t\tbody 8\n\t}\n", b.Header)
			}
		}
		sb.WriteString("\tstatus 204 /\n}\n")
	}
	return sb.String()
}

func headerProbe(port, host string, size int) (int, error) {
	conn, err := net.DialTimeout("tcp", "127.0.0.1:"+port, 3*time.Second)
	if err != nil {
		return 0, err
	}
	defer conn.Close()
	srv.NoLinger(conn)
	conn.SetDeadline(time.Now().Add(10 * time.Second))
	var sb strings.Builder
	fmt.Fprintf(&sb, "GET / HTTP/1.1\r\nHost: %s\r\nConnection: close\r\n", host)
	// several fields of at most 4000 bytes each
	for left, i := size, 0; left > 0; i++ {
		n := left
		if n > 4000 {
			n = 4000
		}
		fmt.Fprintf(&sb, "X-Pad-%d: %s\r\n", i, strings.Repeat("p", n))
		left -= n
	}
	sb.WriteString("\r\n")
	go conn.Write([]byte(sb.String())) // the server may answer before it has read everything
	resp, err := http.ReadResponse(bufio.NewReader(conn), &http.Request{Method: "GET"})
	if err != nil {
		return 0, err
	}
	return resp.StatusCode, nil
}

func runE2E(c *E2ECase) (bool, error) {
	if os.Getenv("VERIF_NETNS") != "1" {
		return false, fmt.Errorf("HARNESS: listener-e2e needs a private network namespace (fixed ports)")
	}
	cf := e2eCasketfile(c)
	inst, err := srv.Start(cf, "")
	if err != nil {
		srv.Stop(inst)
		return false, fmt.Errorf("HARNESS: start: %v\n%s", err, cf)
	}
	defer srv.Stop(inst)
	// model: per port, the minimum over the sites listening there that set a value; default 1MB
	limit := [2]int{1 << 20, 1 << 20}
	used := [2]bool{}
	firstHost := [2]string{}
	nontrivial := false
	host := 0
	for _, b := range c.Blocks {
		for k, p := range b.Ports {
			p &= 1
			if !used[p] {
				firstHost[p] = fmt.Sprintf("h%d.test", host)
			}
			used[p] = true
			if v := hdrBytes[b.Header]; b.Header != "" && v < limit[p] {
				limit[p] = v
			}
			if k > 0 && b.Header != "" {
				nontrivial = true // a later key of a block carries the limit to its listener
			}
			host++
		}
	}
	for p := 0; p < 2; p++ {
		if !used[p] {
			continue
		}
		// net/http admits a read-ahead slack of 4096 bytes beyond MaxHeaderBytes: probe well clear of it
		for _, size := range []int{300, 8 << 10, 32 << 10, 128 << 10} {
			st, err := headerProbe(e2ePorts[p], firstHost[p], size)
			desc := fmt.Sprintf("port %s (sites there set header limits with minimum %d bytes), request with %d bytes of header fields", e2ePorts[p], limit[p], size)
			if err != nil {
				return nontrivial, fmt.Errorf("HARNESS: %s: %v", desc, err)
			}
			switch {
			case size < limit[p]/2 && st != 204:
				return nontrivial, fmt.Errorf("%s: status %d, want 204 (well within the limit)\n%s", desc, st, cf)
			case size > limit[p]+6000 && st != 431:
				return nontrivial, fmt.Errorf("%s: status %d, want 431 (the strictest configured header limit applies to the listener)\n%s", desc, st, cf)
			}
		}
	}
	return nontrivial, nil
}

func genE2E(t *rapid.T) *E2ECase {
	c := &E2ECase{}
	nb := rapid.IntRange(1, 3).Draw(t, "nblocks")
	for i := 0; i < nb; i++ {
		lb := fmt.Sprintf("b%d", i)
		b := Block{Header: rapid.SampledFrom([]string{"", "1KB", "16KB", "64KB", "1KB"}).Draw(t, lb+"h")}
		b.Ports = rapid.SliceOfN(rapid.IntRange(0, 1), 1, 3).Draw(t, lb+"ports")
		b.Short = b.Header != "" && rapid.IntRange(0, 3).Draw(t, lb+"short") == 0
		c.Blocks = append(c.Blocks, b)
	}
	return c
}

func TestListenerE2E(t *testing.T) {
	if vt.ReplayPath() != "" {
		t.Skip("replay mode")
	}
	rapid.Check(t, func(t *rapid.T) {
		c := genE2E(t)
		nt, err := runE2E(c)
		vt.Record("listener-e2e", c, nt, fmt.Sprintf("blocks=%d", len(c.Blocks)))
		vt.Check(t, "listener-e2e", c, err)
	})
}
