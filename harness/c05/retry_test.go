package c05

import (
	"bytes"
	"context"
	"errors"
	"fmt"
	"io"
	"net"
	"net/http"
	"net/http/httptest"
	"strings"
	"sync"
	"syscall"
	"testing"
	"time"

	"github.com/tmpim/casket/caskethttp/httpserver"
	"github.com/tmpim/casket/caskethttp/proxy"
	"pgregory.net/rapid"

	"verif/harness/internal/vt"
)

// backend fault patterns
const (
	fpHealthy    = "healthy"
	fpRefuse     = "refuse"        // fails at once, body untouched
	fpFailAfterK = "fail-after"    // reads K body bytes, then fails
	fpFailFirstM = "fail-first"    // refuses the first M attempts, then healthy
	fpReadAllErr = "read-all-fail" // reads the whole body, then fails
)

type backendSpec struct {
	Pattern string `json:"pattern"`
	K       int    `json:"k,omitempty"`
	M       int    `json:"m,omitempty"`
	Err     string `json:"err,omitempty"` // what a failing attempt returns: "" (plain error), "dial-timeout", "eof", "reset"
}

// dialTimeoutErr is the error a real dial returns when it runs out of time
// (it matches context.DeadlineExceeded under errors.Is).
var dialTimeoutErr = func() error {
	_, err := net.DialTimeout("tcp", "127.0.0.1:9", time.Nanosecond)
	if err == nil || !errors.Is(err, context.DeadlineExceeded) {
		return &net.OpError{Op: "dial", Net: "tcp", Err: deadlineErr{}}
	}
	return err
}()

type deadlineErr struct{}

func (deadlineErr) Error() string   { return "i/o timeout" }
func (deadlineErr) Timeout() bool   { return true }
func (deadlineErr) Temporary() bool { return true }
func (deadlineErr) Is(err error) bool {
	return err == context.DeadlineExceeded
}

func (s backendSpec) failure() error {
	switch s.Err {
	case "dial-timeout":
		return dialTimeoutErr
	case "eof":
		return io.EOF
	case "reset":
		return &net.OpError{Op: "read", Net: "tcp", Err: syscall.ECONNRESET}
	}
	return errors.New("verif: backend failure (injected)")
}

type retryCase struct {
	Policy   string        `json:"policy"`
	Backends []backendSpec `json:"backends"`
	MaxFails int           `json:"max_fails"`
	TryMs    int           `json:"try_duration_ms"`
	FailMs   int           `json:"fail_timeout_ms"`
	BodyLen  int           `json:"body_len"`
	Chunked  bool          `json:"chunked"` // no Content-Length
	Key      string        `json:"key"`
	Method   string        `json:"method"`
}

type attempt struct {
	Host     int
	Got      int
	Complete bool // read to EOF
	Equal    bool // bytes equal the original body
	Failed   bool
}

type fakeBackend struct {
	idx   int
	spec  backendSpec
	calls int
	log   *[]attempt
	mu    *sync.Mutex
	orig  []byte
}

func (f *fakeBackend) RoundTrip(req *http.Request) (*http.Response, error) {
	f.mu.Lock()
	f.calls++
	call := f.calls
	f.mu.Unlock()
	a := attempt{Host: f.idx}
	readAll := func() {
		if req.Body != nil {
			b, _ := io.ReadAll(req.Body)
			req.Body.Close()
			a.Got, a.Complete, a.Equal = len(b), true, bytes.Equal(b, f.orig)
		} else {
			a.Complete, a.Equal = true, len(f.orig) == 0
		}
	}
	fail := func() (*http.Response, error) {
		a.Failed = true
		f.mu.Lock()
		*f.log = append(*f.log, a)
		f.mu.Unlock()
		return nil, f.spec.failure()
	}
	switch f.spec.Pattern {
	case fpRefuse:
		a.Equal = true // body untouched
		return fail()
	case fpFailFirstM:
		if call <= f.spec.M {
			a.Equal = true
			return fail()
		}
	case fpFailAfterK:
		if req.Body != nil {
			buf := make([]byte, f.spec.K)
			n, _ := io.ReadFull(req.Body, buf)
			a.Got = n
			a.Equal = bytes.Equal(buf[:n], f.orig[:min(n, len(f.orig))])
			req.Body.Close()
		} else {
			a.Equal = true
		}
		return fail()
	case fpReadAllErr:
		readAll()
		return fail()
	}
	readAll()
	f.mu.Lock()
	*f.log = append(*f.log, a)
	f.mu.Unlock()
	body := fmt.Sprintf("backend=%d got=%d equal=%v", f.idx, a.Got, a.Equal)
	return &http.Response{StatusCode: 200, Status: "200 OK", Proto: "HTTP/1.1", ProtoMajor: 1, ProtoMinor: 1,
		Header: http.Header{"X-Backend": {fmt.Sprint(f.idx)}}, Body: io.NopCloser(strings.NewReader(body)), ContentLength: int64(len(body)), Request: req}, nil
}

func min(a, b int) int {
	if a < b {
		return a
	}
	return b
}

func makeBody(n int) []byte {
	b := make([]byte, n)
	for i := range b {
		b[i] = byte('a' + (i*7+i/251)%26)
	}
	return b
}

// eventuallyHealthy: the backend answers successfully from some attempt on
func eventuallyHealthy(s backendSpec) bool {
	return s.Pattern == fpHealthy || s.Pattern == fpFailFirstM
}

type onlyReader struct{ r io.Reader }

func (o onlyReader) Read(p []byte) (int, error) { return o.r.Read(p) }

// runRetry returns (number of failed attempts, error)
func runRetry(c *retryCase) (int, error) {
	n := len(c.Backends)
	extra := fmt.Sprintf("  try_duration %dms\n  try_interval 1ms\n  fail_timeout %dms\n", c.TryMs, c.FailMs)
	up, pool, err := buildUpstream(c.Policy, n, c.MaxFails, 0, extra)
	if err != nil {
		return 0, err
	}
	defer up.Stop()
	orig := makeBody(c.BodyLen)
	var log []attempt
	var mu sync.Mutex
	for i, h := range pool {
		h.ReverseProxy.Transport = &fakeBackend{idx: i, spec: c.Backends[i], log: &log, mu: &mu, orig: orig}
	}
	p := proxy.Proxy{Next: httpserver.EmptyNext, Upstreams: []proxy.Upstream{up}}
	var body io.Reader
	if c.BodyLen > 0 || c.Chunked {
		body = onlyReader{bytes.NewReader(orig)}
	}
	r := httptest.NewRequest(c.Method, "/", body)
	switch c.Policy {
	case "ip_hash":
		r.RemoteAddr = c.Key + ":1234"
	case "uri_hash":
		r.RequestURI = "/" + c.Key
		r.URL.Path = "/" + c.Key
	case "header":
		r.Header.Set("X-Key", c.Key)
	}
	if body != nil {
		if c.Chunked {
			r.ContentLength = -1
			r.TransferEncoding = []string{"chunked"}
		} else {
			r.ContentLength = int64(c.BodyLen)
		}
	}
	w := httptest.NewRecorder()
	start := time.Now()
	status, herr := p.ServeHTTP(w, r)
	elapsed := time.Since(start)
	mu.Lock()
	defer mu.Unlock()
	failed := 0
	for _, a := range log {
		if a.Failed {
			failed++
		}
	}
	anyHealthy := false
	for _, b := range c.Backends {
		if b.Pattern == fpHealthy {
			anyHealthy = true
		}
	}
	desc := func() string {
		return fmt.Sprintf("status=%d err=%v elapsed=%s attempts=%+v", status, herr, elapsed.Round(time.Millisecond), log)
	}
	// every attempt that read the body to the end must have seen the original bytes
	for _, a := range log {
		if a.Complete && !a.Equal {
			return failed, fmt.Errorf("attempt at backend %d read the body to EOF but got %d bytes that differ from the %d-byte original (%s)", a.Host, a.Got, len(orig), desc())
		}
		if !a.Complete && !a.Equal {
			return failed, fmt.Errorf("attempt at backend %d received a corrupted body prefix (%s)", a.Host, desc())
		}
	}
	if anyHealthy {
		if status != 0 || w.Code != 200 {
			if elapsed > time.Duration(c.TryMs)*time.Millisecond*3/4 && failed > 0 {
				// retries slowed down by machine load: no verdict
				return failed, fmt.Errorf("HARNESS-INCONCLUSIVE: request with a healthy backend ended after %s (try_duration %dms): %s", elapsed, c.TryMs, desc())
			}
			return failed, fmt.Errorf("a healthy backend exists (%+v) but the request was not answered by it: %s", c.Backends, desc())
		}
		bk := w.Header().Get("X-Backend")
		var bi int
		fmt.Sscan(bk, &bi)
		if bk == "" || bi < 0 || bi >= n || !eventuallyHealthy(c.Backends[bi]) {
			return failed, fmt.Errorf("response does not come from a healthy backend (X-Backend=%q): %s", bk, desc())
		}
		want := fmt.Sprintf("backend=%d got=%d equal=true", bi, len(orig))
		if w.Body.String() != want {
			return failed, fmt.Errorf("answering backend reports %q, want %q: %s", w.Body.String(), want, desc())
		}
		return failed, nil
	}
	allBad := true
	for _, b := range c.Backends {
		if eventuallyHealthy(b) {
			allBad = false
		}
	}
	if allBad {
		if status != http.StatusBadGateway {
			return failed, fmt.Errorf("no backend can answer, want 502, got: %s", desc())
		}
		if elapsed < time.Duration(c.TryMs)*time.Millisecond {
			return failed, fmt.Errorf("502 returned after %s, before try_duration %dms was spent: %s", elapsed, c.TryMs, desc())
		}
		return failed, nil
	}
	// only flaky (fail-first) backends: either outcome is acceptable, but a 200 must be genuine
	if status == 0 && w.Code == 200 {
		bk := w.Header().Get("X-Backend")
		var bi int
		fmt.Sscan(bk, &bi)
		want := fmt.Sprintf("backend=%d got=%d equal=true", bi, len(orig))
		if w.Body.String() != want {
			return failed, fmt.Errorf("answering backend reports %q, want %q: %s", w.Body.String(), want, desc())
		}
	} else if status != http.StatusBadGateway {
		return failed, fmt.Errorf("unexpected outcome: %s", desc())
	}
	return failed, nil
}

var bodyLens = []int{0, 1, 100, 4096, 32767, 32768, 32769, 65536, 100000}

func genBackend(t *rapid.T, label string, bodyLen int) backendSpec {
	b := genBackendPattern(t, label, bodyLen)
	if b.Pattern != fpHealthy {
		b.Err = rapid.SampledFrom([]string{"", "", "dial-timeout", "eof", "reset"}).Draw(t, label+"e")
	}
	return b
}

func genBackendPattern(t *rapid.T, label string, bodyLen int) backendSpec {
	switch rapid.IntRange(0, 9).Draw(t, label+"p") {
	case 0, 1, 2:
		return backendSpec{Pattern: fpHealthy}
	case 3, 4, 5:
		return backendSpec{Pattern: fpRefuse}
	case 6, 7:
		k := 0
		if bodyLen > 0 {
			k = rapid.IntRange(0, bodyLen).Draw(t, label+"k")
		}
		return backendSpec{Pattern: fpFailAfterK, K: k}
	case 8:
		return backendSpec{Pattern: fpReadAllErr}
	default:
		return backendSpec{Pattern: fpFailFirstM, M: rapid.IntRange(1, 2).Draw(t, label+"m")}
	}
}

func TestRetry(t *testing.T) {
	if vt.ReplayPath() != "" {
		t.Skip("replay mode")
	}
	rapid.Check(t, func(t *rapid.T) {
		c := &retryCase{}
		n := rapid.IntRange(1, 5).Draw(t, "n")
		c.Policy = rapid.SampledFrom(policies).Draw(t, "policy")
		c.BodyLen = rapid.SampledFrom(bodyLens).Draw(t, "bodylen")
		c.Chunked = rapid.Bool().Draw(t, "chunked")
		c.Method = "POST"
		if c.BodyLen == 0 && !c.Chunked {
			c.Method = rapid.SampledFrom([]string{"GET", "POST"}).Draw(t, "method")
		}
		for i := 0; i < n; i++ {
			c.Backends = append(c.Backends, genBackend(t, fmt.Sprintf("b%d", i), c.BodyLen))
		}
		c.MaxFails = rapid.IntRange(1, 3).Draw(t, "max_fails")
		c.FailMs = rapid.SampledFrom([]int{5, 50, 10000}).Draw(t, "fail_timeout")
		c.Key = fmt.Sprintf("10.2.%d.%d", rapid.IntRange(0, 20).Draw(t, "k1"), rapid.IntRange(1, 254).Draw(t, "k2"))
		anyHealthy, anyEventually := false, false
		for _, b := range c.Backends {
			if b.Pattern == fpHealthy {
				anyHealthy = true
			}
			if eventuallyHealthy(b) {
				anyEventually = true
			}
		}
		if anyHealthy || anyEventually {
			c.TryMs = 3000
		} else {
			c.TryMs = rapid.SampledFrom([]int{20, 40, 80}).Draw(t, "try_ms")
		}
		classes := []string{"policy:" + c.Policy, fmt.Sprintf("n=%d", n)}
		if c.Chunked {
			classes = append(classes, "chunked")
		}
		if anyHealthy {
			classes = append(classes, "healthy-exists")
		} else if !anyEventually {
			classes = append(classes, "none-can-answer")
		} else {
			classes = append(classes, "only-flaky")
		}
		if vt.Open("single-host-retry-unbuffered") && n == 1 && c.Backends[0].Pattern == fpFailFirstM {
			// one flaky backend: nothing to exclude (refusals do not touch the body)
		}
		failed, err := runRetry(c)
		if err != nil && strings.HasPrefix(err.Error(), "HARNESS-INCONCLUSIVE") {
			vt.Skip("retry", "slow-machine-inconclusive")
			return
		}
		if failed > 0 {
			classes = append(classes, "had-failed-attempt")
		}
		vt.Record("retry", c, failed > 0, classes...)
		vt.Check(t, "retry", c, err)
	})
}
