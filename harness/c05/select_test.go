package c05

import (
	"fmt"
	"hash/fnv"
	"net"
	"net/http"
	"net/http/httptest"
	"reflect"
	"strings"
	"testing"

	"github.com/tmpim/casket/casketfile"
	"github.com/tmpim/casket/caskethttp/proxy"
	"pgregory.net/rapid"

	"verif/harness/internal/vt"
)

func TestMain(m *testing.M) {
	vt.Property = "C05"
	vt.Main(m)
}

// host states
const (
	stHealthy   = 0 // up, Conns 0
	stUnhealthy = 1 // health check failed
	stFailed    = 2 // Fails == max_fails
	stFull      = 3 // Conns == max_conns
	stBusy1     = 4 // up, Conns 1 (below cap)
	stBusy2     = 5 // up, Conns 2 (below cap)
)

var stateNames = []string{"healthy", "unhealthy", "failed", "full", "busy1", "busy2"}

type selCase struct {
	Policy   string `json:"policy"`
	States   []int  `json:"states"`
	Key      string `json:"key"`
	MaxFails int    `json:"max_fails"`
	MaxConns int    `json:"max_conns"`
}

func buildUpstream(policy string, n, maxFails, maxConns int, extra string) (proxy.Upstream, proxy.HostPool, error) {
	var sb strings.Builder
	sb.WriteString("proxy /")
	for i := 0; i < n; i++ {
		fmt.Fprintf(&sb, " http://h%d.test:80", i)
	}
	sb.WriteString(" {\n")
	pol := policy
	if policy == "header" {
		// header names are case-insensitive, in a Casketfile as on the wire
		pol = "header " + []string{"X-Key", "x-key", "X-KEY"}[n%3]
	}
	fmt.Fprintf(&sb, "  policy %s\n  max_fails %d\n  max_conns %d\n%s}\n", pol, maxFails, maxConns, extra)
	ups, err := proxy.NewStaticUpstreams(casketfile.NewDispenser("Testfile", strings.NewReader(sb.String())), "")
	if err != nil {
		return nil, nil, fmt.Errorf("HARNESS: NewStaticUpstreams(%q): %v", sb.String(), err)
	}
	if len(ups) != 1 {
		return nil, nil, fmt.Errorf("HARNESS: %d upstreams", len(ups))
	}
	f := reflect.ValueOf(ups[0]).Elem().FieldByName("Hosts")
	if !f.IsValid() {
		return nil, nil, fmt.Errorf("HARNESS: no Hosts field")
	}
	pool, ok := f.Interface().(proxy.HostPool)
	if !ok || len(pool) != n {
		return nil, nil, fmt.Errorf("HARNESS: Hosts field has %d hosts, want %d", len(pool), n)
	}
	return ups[0], pool, nil
}

func setState(h *proxy.UpstreamHost, st, maxFails, maxConns int) {
	h.Unhealthy, h.Fails, h.Conns = 0, 0, 0
	switch st {
	case stUnhealthy:
		h.Unhealthy = 1
	case stFailed:
		h.Fails = int32(maxFails)
	case stFull:
		h.Conns = int64(maxConns)
	case stBusy1:
		h.Conns = 1
	case stBusy2:
		h.Conns = 2
	}
}

func modelAvailable(st int) bool { return st == stHealthy || st == stBusy1 || st == stBusy2 }
func modelConns(st, maxConns int) int64 {
	switch st {
	case stBusy1:
		return 1
	case stBusy2:
		return 2
	case stFull:
		return int64(maxConns)
	}
	return 0
}

func mkRequest(policy, key string) *http.Request {
	r := httptest.NewRequest("GET", "/", nil)
	switch policy {
	case "ip_hash":
		r.RemoteAddr = net.JoinHostPort(key, "1234") // an IPv6 key gets its brackets here, as net/http writes it
	case "uri_hash":
		r.RequestURI = "/" + key
		r.URL.Path = "/" + key
	case "header":
		r.Header.Set("X-Key", key)
	}
	return r
}

func indexOf(pool proxy.HostPool, h *proxy.UpstreamHost) int {
	for i, x := range pool {
		if x == h {
			return i
		}
	}
	return -1
}

// runSelect checks one (policy, states, key) configuration against the model.
func runSelect(c *selCase) error {
	n := len(c.States)
	up, pool, err := buildUpstream(c.Policy, n, c.MaxFails, c.MaxConns, "")
	if err != nil {
		return err
	}
	defer up.Stop()
	for i, st := range c.States {
		setState(pool[i], st, c.MaxFails, c.MaxConns)
	}
	var avail []int
	for i, st := range c.States {
		if modelAvailable(st) {
			avail = append(avail, i)
		}
	}
	r := mkRequest(c.Policy, c.Key)
	reps := 3
	if c.Policy == "round_robin" || (c.Policy == "header" && c.Key == "") {
		reps = 2*len(avail) + 1
	}
	if c.Policy == "random" || c.Policy == "least_conn" {
		reps = 4
	}
	// another upstream block of the same site with the same policy takes requests in between: what one
	// block does must not depend on the traffic of another
	var other proxy.Upstream
	// (only for round_robin: the header policy's fall-back for requests without the header deliberately
	// shares one package-level counter between blocks, and the statement says nothing about that fall-back)
	if c.Policy == "round_robin" {
		if o, _, err := buildUpstream(c.Policy, 2, c.MaxFails, c.MaxConns, ""); err == nil {
			other = o
			defer other.Stop()
		}
	}
	var picks []int
	for k := 0; k < reps; k++ {
		if c.Policy == "ip_hash" {
			// the same client comes back from another source port
			r.RemoteAddr = net.JoinHostPort(c.Key, fmt.Sprint(1234+k*977))
		}
		if other != nil {
			other.Select(r)
		}
		h := up.Select(r)
		if len(avail) == 0 {
			if h != nil {
				return fmt.Errorf("no backend available (states %v) but Select returned host %d", names(c.States), indexOf(pool, h))
			}
			continue
		}
		if h == nil {
			return fmt.Errorf("backends %v are available (states %v) but Select returned nil (policy %s, key %q)", avail, names(c.States), c.Policy, c.Key)
		}
		idx := indexOf(pool, h)
		if idx < 0 {
			return fmt.Errorf("Select returned a host that is not in the pool")
		}
		if !modelAvailable(c.States[idx]) {
			return fmt.Errorf("Select returned host %d which is %s (states %v, policy %s)", idx, stateNames[c.States[idx]], names(c.States), c.Policy)
		}
		picks = append(picks, idx)
	}
	if len(avail) == 0 {
		return nil
	}
	switch c.Policy {
	case "ip_hash", "uri_hash":
		for _, p := range picks {
			if p != picks[0] {
				return fmt.Errorf("%s sent the same key %q to different backends %v while availability was unchanged", c.Policy, c.Key, picks)
			}
		}
	case "header":
		if c.Key != "" {
			for _, p := range picks {
				if p != picks[0] {
					return fmt.Errorf("header policy sent the same key %q to different backends %v", c.Key, picks)
				}
			}
		} else if err := checkRoundRobin(picks, avail); err != nil {
			return fmt.Errorf("header policy without header value (round robin fallback): %v", err)
		}
	case "first":
		for _, p := range picks {
			if p != avail[0] {
				return fmt.Errorf("first picked host %d, earliest available is %d (states %v)", p, avail[0], names(c.States))
			}
		}
	case "least_conn":
		min := int64(1 << 60)
		for _, i := range avail {
			if v := modelConns(c.States[i], c.MaxConns); v < min {
				min = v
			}
		}
		for _, p := range picks {
			if v := modelConns(c.States[p], c.MaxConns); v != min {
				return fmt.Errorf("least_conn picked host %d with %d connections, minimum among available is %d (states %v)", p, v, min, names(c.States))
			}
		}
	case "round_robin":
		if err := checkRoundRobin(picks, avail); err != nil {
			return err
		}
	}
	return nil
}

// every window of m consecutive picks (m = number available) visits each available host once
func checkRoundRobin(picks, avail []int) error {
	m := len(avail)
	for s := 0; s+m <= len(picks); s++ {
		seen := map[int]int{}
		for _, p := range picks[s : s+m] {
			seen[p]++
		}
		for _, a := range avail {
			if seen[a] != 1 {
				return fmt.Errorf("round robin: picks %v, window at %d does not visit each of the available hosts %v exactly once", picks, s, avail)
			}
		}
	}
	return nil
}

func names(states []int) []string {
	var out []string
	for _, s := range states {
		out = append(out, stateNames[s])
	}
	return out
}

// keysCovering returns keys such that every start slot hash%n (n<=16) occurs.
func keysCovering(n int, policy string) []string {
	seen := map[uint32]bool{}
	var keys []string
	for i := 0; len(seen) < n && i < 10000; i++ {
		k := fmt.Sprintf("10.0.%d.%d", i/250, i%250+1)
		hk := k
		if policy == "uri_hash" {
			hk = "/" + k
		}
		h := fnv.New32a()
		h.Write([]byte(hk))
		s := h.Sum32() % uint32(n)
		if !seen[s] {
			seen[s] = true
			keys = append(keys, k)
		}
	}
	return keys
}

var policies = []string{"random", "least_conn", "round_robin", "first", "ip_hash", "uri_hash", "header"}

func isHash(p string) bool { return p == "ip_hash" || p == "uri_hash" || p == "header" }

func nontrivialSel(states []int) bool {
	a, u := false, false
	for _, s := range states {
		if modelAvailable(s) {
			a = true
		} else {
			u = true
		}
	}
	return a && u
}

// TestSelectExhaustive enumerates pool sizes 1..6 x all per-host states x
// policies x keys covering every start slot.
func TestSelectExhaustive(t *testing.T) {
	if vt.ReplayPath() != "" {
		t.Skip("replay mode")
	}
	maxN := 5
	if vt.Thorough() {
		maxN = 6
	}
	for n := 1; n <= maxN; n++ {
		for _, pol := range policies {
			nstates := 4
			if pol == "least_conn" {
				nstates = 6
			}
			if pol == "least_conn" && n > 5 {
				nstates = 5
			}
			keys := []string{"k"}
			if isHash(pol) {
				keys = keysCovering(n, pol)
				if pol == "header" {
					keys = append(keys, "")
				}
			}
			total := 1
			for i := 0; i < n; i++ {
				total *= nstates
			}
			states := make([]int, n)
			for code := 0; code < total; code++ {
				x := code
				for i := 0; i < n; i++ {
					states[i] = x % nstates
					x /= nstates
				}
				for _, key := range keys {
					c := &selCase{Policy: pol, States: append([]int{}, states...), Key: key, MaxFails: 2, MaxConns: 3}
					if vt.Open("hash-probe-skips-slots") && isHash(pol) && key != "" && matchesHashProbe(c) {
						vt.Excluded("select-exhaustive", "hash-probe-skips-slots")
						continue
					}
					err := runSelect(c)
					h := uint64(code)*1000003 + uint64(n)*7919 + vt.Hash(pol, key)
					vt.RecordHash("select-exhaustive", h, nontrivialSel(states), func() interface{} { return c }, "policy:"+pol, fmt.Sprintf("n=%d", n))
					if err != nil {
						if strings.HasPrefix(err.Error(), "HARNESS") {
							t.Fatal(err)
						}
						vt.Fail(t, "select", c, "%v", err)
					}
				}
			}
		}
	}
	vt.Exhaustive("select-exhaustive")
}

// matchesHashProbe is the signature of the (fixed) finding hash-probe-skips-slots:
// only used when the finding is listed as open.
func matchesHashProbe(c *selCase) bool {
	n := len(c.States)
	return n != 1 && n != 2 && n != 4 && n != 8 && n != 16
}

// TestSelectRandom draws larger pools (up to 16) and mixed caps.
func TestSelectRandom(t *testing.T) {
	if vt.ReplayPath() != "" {
		t.Skip("replay mode")
	}
	rapid.Check(t, func(t *rapid.T) {
		n := rapid.IntRange(1, 16).Draw(t, "n")
		pol := rapid.SampledFrom(policies).Draw(t, "policy")
		c := &selCase{Policy: pol, MaxFails: rapid.IntRange(1, 3).Draw(t, "max_fails"), MaxConns: rapid.IntRange(3, 5).Draw(t, "max_conns")}
		// bias towards few available hosts
		pAvail := rapid.IntRange(0, 4).Draw(t, "pavail")
		for i := 0; i < n; i++ {
			if rapid.IntRange(0, 4).Draw(t, fmt.Sprintf("a%d", i)) < pAvail {
				c.States = append(c.States, rapid.SampledFrom([]int{stHealthy, stBusy1, stBusy2}).Draw(t, fmt.Sprintf("s%d", i)))
			} else {
				c.States = append(c.States, rapid.SampledFrom([]int{stUnhealthy, stFailed, stFull}).Draw(t, fmt.Sprintf("s%d", i)))
			}
		}
		c.Key = fmt.Sprintf("10.1.%d.%d", rapid.IntRange(0, 255).Draw(t, "k1"), rapid.IntRange(1, 254).Draw(t, "k2"))
		if pol == "ip_hash" && rapid.IntRange(0, 2).Draw(t, "v6") == 0 {
			// IPv6 clients, with and without a zone
			c.Key = rapid.SampledFrom([]string{"::1", "2001:db8::7", "fe80::1%eth0", "2001:db8:0:1:2:3:4:5", "::ffff:10.0.0.1"}).Draw(t, "k6")
		}
		if pol == "header" && rapid.IntRange(0, 5).Draw(t, "nokey") == 0 {
			c.Key = ""
		}
		if vt.Open("hash-probe-skips-slots") && isHash(pol) && c.Key != "" && matchesHashProbe(c) {
			vt.Excluded("select-random", "hash-probe-skips-slots")
			return
		}
		err := runSelect(c)
		vt.Record("select-random", c, nontrivialSel(c.States), "policy:"+pol)
		if err != nil {
			if strings.HasPrefix(err.Error(), "HARNESS") {
				t.Fatalf("%v", err)
			}
			vt.Fail(t, "select", c, "%v", err)
		}
	})
}

// ---------------------------------------------------------------------------

func replayCase(rf *vt.ReplayFile) error {
	switch rf.Sub {
	case "select":
		var c selCase
		if err := vt.Decode(rf, &c); err != nil {
			return err
		}
		return runSelect(&c)
	case "after-burst":
		var c burstCase
		if err := vt.Decode(rf, &c); err != nil {
			return err
		}
		for i := 0; i < 5; i++ {
			if err := runBurst(&c); err != nil {
				return err
			}
		}
		return nil
	case "retry":
		var c retryCase
		if err := vt.Decode(rf, &c); err != nil {
			return err
		}
		_, err := runRetry(&c)
		return err
	}
	return fmt.Errorf("HARNESS: unknown sub %q", rf.Sub)
}

func TestReplay(t *testing.T) { vt.RunReplay(t, replayCase) }
func TestCorpus(t *testing.T) { vt.RunCorpus(t, replayCase) }
