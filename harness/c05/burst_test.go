package c05

import (
	"fmt"
	"io"
	"net/http"
	"net/http/httptest"
	"strings"
	"sync"
	"sync/atomic"
	"testing"
	"time"

	"github.com/tmpim/casket/caskethttp/httpserver"
	"github.com/tmpim/casket/caskethttp/proxy"
	"pgregory.net/rapid"

	"verif/harness/internal/vt"
)

// after a burst: availability is a statement about the pool's state, and that
// state is also changed by traffic. A burst of concurrent requests against
// healthy backends with a connection cap must leave every backend available
// again once it is over: the next request is answered by a healthy backend.

type burstCase struct {
	Policy   string `json:"policy"`
	Backends int    `json:"backends"`
	MaxConns int    `json:"max_conns"`
	Burst    int    `json:"burst"`
	HoldUs   int    `json:"hold_us"` // how long a backend takes to answer
	Rounds   int    `json:"rounds"`
}

type slowBackend struct {
	idx  int
	hold time.Duration
	now  *int64 // requests inside this backend
	peak *int64
}

func (b *slowBackend) RoundTrip(req *http.Request) (*http.Response, error) {
	n := atomic.AddInt64(b.now, 1)
	for {
		p := atomic.LoadInt64(b.peak)
		if n <= p || atomic.CompareAndSwapInt64(b.peak, p, n) {
			break
		}
	}
	if req.Body != nil {
		io.Copy(io.Discard, req.Body)
		req.Body.Close()
	}
	time.Sleep(b.hold)
	atomic.AddInt64(b.now, -1)
	body := fmt.Sprintf("backend=%d", b.idx)
	return &http.Response{StatusCode: 200, Status: "200 OK", Proto: "HTTP/1.1", ProtoMajor: 1, ProtoMinor: 1,
		Header: http.Header{"X-Backend": {fmt.Sprint(b.idx)}}, Body: io.NopCloser(strings.NewReader(body)), ContentLength: int64(len(body)), Request: req}, nil
}

func runBurst(c *burstCase) error {
	up, pool, err := buildUpstream(c.Policy, c.Backends, 1, c.MaxConns, "  try_duration 300ms\n  try_interval 1ms\n  fail_timeout 1s\n")
	if err != nil {
		return err
	}
	defer up.Stop()
	peaks := make([]int64, c.Backends)
	nows := make([]int64, c.Backends)
	for i, h := range pool {
		h.ReverseProxy.Transport = &slowBackend{idx: i, hold: time.Duration(c.HoldUs) * time.Microsecond, now: &nows[i], peak: &peaks[i]}
	}
	p := proxy.Proxy{Next: httpserver.EmptyNext, Upstreams: []proxy.Upstream{up}}
	for round := 0; round < c.Rounds; round++ {
		var wg sync.WaitGroup
		start := make(chan struct{})
		for i := 0; i < c.Burst; i++ {
			wg.Add(1)
			go func(i int) {
				defer wg.Done()
				r := httptest.NewRequest("GET", fmt.Sprintf("/k%d", i), nil)
				r.RemoteAddr = fmt.Sprintf("10.0.0.%d:1234", i%250)
				r.Header.Set("X-Key", fmt.Sprint(i))
				<-start
				p.ServeHTTP(httptest.NewRecorder(), r) // 200, or 502 when the cap kept it out for 300 ms: both fine
			}(i)
		}
		close(start)
		wg.Wait()
		for i, pk := range peaks {
			if c.MaxConns > 0 && pk > int64(c.MaxConns) {
				return fmt.Errorf("round %d: backend %d had %d requests inside it at once, max_conns is %d", round, i, pk, c.MaxConns)
			}
		}
		// traffic has stopped: every backend is healthy and idle, so it is available
		for i, h := range pool {
			if n := atomic.LoadInt64(&h.Conns); n != 0 {
				return fmt.Errorf("round %d: after a burst of %d concurrent requests backend %d is idle but counts %d connections in flight (max_conns %d)", round, c.Burst, i, n, c.MaxConns)
			}
			if !h.Available() {
				return fmt.Errorf("round %d: after the burst backend %d is healthy and idle but not available", round, i)
			}
		}
		w := httptest.NewRecorder()
		r := httptest.NewRequest("GET", "/after", nil)
		r.RemoteAddr = "10.9.9.9:1"
		r.Header.Set("X-Key", "after")
		if status, herr := p.ServeHTTP(w, r); status != 0 || w.Code != 200 {
			return fmt.Errorf("round %d: all %d backends are healthy and idle after a burst of %d requests, yet the next request got status=%d code=%d err=%v", round, c.Backends, c.Burst, status, w.Code, herr)
		}
	}
	return nil
}

func TestAfterBurst(t *testing.T) {
	if vt.ReplayPath() != "" {
		t.Skip("replay mode")
	}
	rapid.Check(t, func(t *rapid.T) {
		c := &burstCase{
			Policy:   rapid.SampledFrom([]string{"random", "round_robin", "least_conn", "first", "ip_hash", "uri_hash", "header"}).Draw(t, "policy"),
			Backends: rapid.IntRange(1, 3).Draw(t, "backends"),
			MaxConns: rapid.IntRange(1, 3).Draw(t, "max_conns"),
			Burst:    rapid.SampledFrom([]int{2, 4, 8, 16, 32}).Draw(t, "burst"),
			HoldUs:   rapid.SampledFrom([]int{0, 100, 1000, 3000}).Draw(t, "hold"),
			Rounds:   rapid.IntRange(1, 4).Draw(t, "rounds"),
		}
		err := runBurst(c)
		vt.Record("after-burst", c, c.Burst > c.MaxConns*c.Backends, "policy:"+c.Policy)
		vt.Check(t, "after-burst", c, err)
	})
}
