package c11

import (
	"fmt"
	"net"
	"os"
	"path/filepath"
	"runtime"
	"sort"
	"strings"
	"sync"
	"testing"
	"time"

	"github.com/tmpim/casket"
	"github.com/tmpim/casket/caskethttp/httpserver"
	"pgregory.net/rapid"

	"verif/harness/internal/srv"
	"verif/harness/internal/vt"
)

var endReached bool
var endMu sync.Mutex

func TestMain(m *testing.M) {
	vt.Property = "C11"
	// zz_end is the last directive of the list: its setup running means every
	// directive of the configuration was accepted
	httpserver.RegisterDevDirective("zz_end", "")
	casket.RegisterPlugin("zz_end", casket.Plugin{ServerType: "http", Action: func(c *casket.Controller) error {
		for c.Next() {
			c.RemainingArgs()
		}
		endMu.Lock()
		endReached = true
		endMu.Unlock()
		return nil
	}})
	_ = srv.LogBuf
	vt.Main(m)
}

// ---------------------------------------------------------------------------

type SubLine struct {
	Toks   []string  `json:"toks"`
	Nested []SubLine `json:"nested,omitempty"`
}

type Dir struct {
	Name string    `json:"name"`
	Args []string  `json:"args"`
	Sub  []SubLine `json:"sub,omitempty"`
	Has  bool      `json:"has"`
	// After: tokens written after the closing brace of the block, on its line ("} y")
	After []string `json:"after,omitempty"`
}

type Case struct {
	Keys []string `json:"keys"`
	Dirs []Dir    `json:"dirs"`
	Real bool     `json:"real"` // also give the text to casket.Start
}

func quote(s string) string {
	if s == "" || strings.ContainsAny(s, " \t\n#\"") || s == "{" || s == "}" {
		return `"` + strings.ReplaceAll(s, `"`, `\"`) + `"`
	}
	return s
}

func renderSub(sb *strings.Builder, lines []SubLine, depth int) {
	for _, l := range lines {
		sb.WriteString(strings.Repeat("\t", depth))
		for i, tk := range l.Toks {
			if i > 0 {
				sb.WriteString(" ")
			}
			sb.WriteString(quote(tk))
		}
		if l.Nested != nil {
			sb.WriteString(" {\n")
			renderSub(sb, l.Nested, depth+1)
			sb.WriteString(strings.Repeat("\t", depth) + "}")
		}
		sb.WriteString("\n")
	}
}

func (c *Case) text() string {
	var sb strings.Builder
	sb.WriteString(strings.Join(c.Keys, ", ") + " {\n")
	for _, d := range c.Dirs {
		sb.WriteString("\t" + d.Name)
		for _, a := range d.Args {
			sb.WriteString(" " + quote(a))
		}
		if d.Has {
			sb.WriteString(" {\n")
			renderSub(&sb, d.Sub, 2)
			sb.WriteString("\t}")
			for _, a := range d.After {
				sb.WriteString(" " + quote(a))
			}
		}
		sb.WriteString("\n")
	}
	sb.WriteString("\tzz_end\n}\n")
	return sb.String()
}

type outcome struct {
	err     error
	pan     interface{}
	stack   string
	hung    bool
	slow    bool // returned, but only after the first 20 s
	reached bool
}

func guarded(f func() error) outcome {
	endMu.Lock()
	endReached = false
	endMu.Unlock()
	ch := make(chan outcome, 1)
	go func() {
		var o outcome
		defer func() {
			if p := recover(); p != nil {
				o.pan = p
				buf := make([]byte, 1<<14)
				o.stack = string(buf[:runtime.Stack(buf, false)])
			}
			endMu.Lock()
			o.reached = endReached
			endMu.Unlock()
			ch <- o
		}()
		o.err = f()
	}()
	beats, at := vt.Beats(), time.Now()
	select {
	case o := <-ch:
		return o
	case <-time.After(20 * time.Second):
		if !vt.Starved(beats, at) {
			return outcome{hung: true} // the machine was responsive all along: the setup is stuck
		}
		// a starved machine is not a hang: give it a long second chance, and report
		// the case as discarded (not as held, not as violated) if it then returns
		select {
		case o := <-ch:
			o.slow = true
			return o
		case <-time.After(100 * time.Second):
			return outcome{hung: true}
		}
	}
}

func runCase(c *Case, hard func(string)) (consumed bool, err error) {
	text := c.text()
	input := casket.CasketfileInput{Contents: []byte(text), Filepath: "Casketfile", ServerTypeName: "http"}
	v := guarded(func() error { return casket.ValidateAndExecuteDirectives(input, nil, true) })
	if v.slow {
		return true, fmt.Errorf("HARNESS: validation took more than 20 s but did return (starved machine): no verdict")
	}
	if v.hung {
		hard("validating the configuration did not return (20 s on a responsive machine, 120 s on a starved one):\n" + text)
		return true, fmt.Errorf("HANG")
	}
	if v.pan != nil {
		return true, fmt.Errorf("directive setup panicked under -validate: %v\nconfiguration:\n%s\n%s", v.pan, text, v.stack)
	}
	if v.err != nil && strings.TrimSpace(v.err.Error()) == "" {
		return true, fmt.Errorf("validation failed with an empty error message; configuration:\n%s", text)
	}
	// a block with several keys is accepted exactly when it is accepted for each key alone
	if len(c.Keys) > 1 {
		each := true
		var firstErr error
		for _, k := range c.Keys {
			one := &Case{Keys: []string{k}, Dirs: c.Dirs}
			in1 := casket.CasketfileInput{Contents: []byte(one.text()), Filepath: "Casketfile", ServerTypeName: "http"}
			o := guarded(func() error { return casket.ValidateAndExecuteDirectives(in1, nil, true) })
			if o.slow {
				return true, fmt.Errorf("HARNESS: validation took more than 20 s but did return (starved machine): no verdict")
			}
			if o.hung {
				hard("validating the configuration did not return (20 s on a responsive machine, 120 s on a starved one):\n" + one.text())
				return true, fmt.Errorf("HANG")
			}
			if o.pan != nil {
				return true, fmt.Errorf("directive setup panicked under -validate: %v\nconfiguration:\n%s\n%s", o.pan, one.text(), o.stack)
			}
			if !o.reached {
				each = false
				if firstErr == nil {
					firstErr = fmt.Errorf("key %q alone: %v", k, o.err)
				}
			}
		}
		if each != v.reached {
			return true, fmt.Errorf("-validate accepts the block for keys %v: %v (err=%v), but validating each key alone gives accepted=%v (%v)\nconfiguration:\n%s", c.Keys, v.reached, v.err, each, firstErr, text)
		}
	}
	if !c.Real {
		return true, nil
	}
	var inst *casket.Instance
	s := guarded(func() error {
		var e error
		inst, e = casket.Start(input)
		return e
	})
	if s.slow {
		if inst != nil && s.err == nil {
			srv.Stop(inst)
		}
		return true, fmt.Errorf("HARNESS: start took more than 20 s but did return (starved machine): no verdict")
	}
	if s.hung {
		hard("starting the configuration did not return (20 s on a responsive machine, 120 s on a starved one):\n" + text)
		return true, fmt.Errorf("HANG")
	}
	if inst != nil && s.err == nil {
		srv.Stop(inst)
	}
	if s.pan != nil {
		return true, fmt.Errorf("casket.Start panicked: %v\nconfiguration:\n%s\n%s", s.pan, text, s.stack)
	}
	if v.reached != s.reached {
		return true, fmt.Errorf("-validate and a real start disagree on whether the directives are accepted: validate accepted=%v (err=%v), start accepted=%v (err=%v)\nconfiguration:\n%s", v.reached, v.err, s.reached, s.err, text)
	}
	return true, nil
}

// ---------------------------------------------------------------------------
// generators

// sub-block keyword vocabulary per directive
var vocab = map[string][]string{
	"basicauth":  {"realm", "exclude", "/path"},
	"browse":     {"path", "tplfile", "servearchive", "buffer"},
	"errors":     {"visible", "404", "500", "*", "rotate_size", "rotate_age", "rotate_keep", "rotate_compress", "rotate_disable"},
	"fastcgi":    {"ext", "split", "index", "env", "except", "upstream", "root", "connect_timeout", "read_timeout", "send_timeout", "pool", "without"},
	"gzip":       {"ext", "not", "level", "min_length"},
	"header":     {"X-Foo", "-X-Bar", "+X-Baz"},
	"limits":     {"header", "body"},
	"log":        {"ipmask", "except", "rotate_size", "rotate_age", "rotate_keep", "rotate_compress", "rotate_disable"},
	"markdown":   {"ext", "css", "js", "template", "templatedir"},
	"mime":       {".ext"},
	"proxy":      {"policy", "fail_timeout", "max_fails", "max_conns", "try_duration", "try_interval", "health_check", "health_check_interval", "health_check_timeout", "health_check_port", "health_check_contains", "header_upstream", "header_downstream", "transparent", "websocket", "without", "except", "upstream", "insecure_skip_verify", "ca_certificates", "keepalive", "timeout", "fallback_delay", "tls_client"},
	"push":       {"method", "header", "/resource"},
	"redir":      {"if", "if_op", "/from"},
	"rewrite":    {"r", "regexp", "to", "ext", "if", "if_op"},
	"status":     {"/path"},
	"templates":  {"path", "ext", "between"},
	"timeouts":   {"read", "header", "write", "idle"},
	"tryfiles":   {"except", "without"},
	"tls":        {"wildcard", "wildcard", "protocols", "ciphers", "curves", "clients", "load", "max_certs", "ask", "dns", "alpn", "must_staple", "wildcard", "ca", "key_type", "insecure_disable_sni_matching", "self_signed", "off"},
	"websocket":  {"respawn", "type", "bufsize"},
	"on":         {},
	"internal":   {},
	"expvar":     {},
	"pprof":      {},
	"ext":        {},
	"index":      {},
	"root":       {},
	"bind":       {},
	"request_id": {},
}

// a few accepted spellings per directive, to start mutations from
var valid = map[string][]Dir{
	"basicauth":  {{Name: "basicauth", Args: []string{"/secret", "bob", "pw"}}, {Name: "basicauth", Args: []string{"bob", "pw"}, Has: true, Sub: []SubLine{{Toks: []string{"realm", "x"}}, {Toks: []string{"/a"}}}}, {Name: "basicauth", Args: []string{"/s", "bob", "htpasswd=ht.txt"}}},
	"bind":       {{Name: "bind", Args: []string{"127.0.0.1"}}},
	"browse":     {{Name: "browse", Args: []string{"/"}}, {Name: "browse", Args: []string{"/x"}, Has: true, Sub: []SubLine{{Toks: []string{"servearchive", "zip"}}, {Toks: []string{"buffer", "1MB"}}}}},
	"errors":     {{Name: "errors"}, {Name: "errors", Args: []string{"err.log"}, Has: true, Sub: []SubLine{{Toks: []string{"404", "404.html"}}, {Toks: []string{"rotate_size", "5"}}}}, {Name: "errors", Args: []string{"visible"}}},
	"expvar":     {{Name: "expvar"}, {Name: "expvar", Args: []string{"/vars"}}},
	"ext":        {{Name: "ext", Args: []string{".html", ".txt"}}},
	"fastcgi":    {{Name: "fastcgi", Args: []string{"/", "127.0.0.1:9000", "php"}}, {Name: "fastcgi", Args: []string{"/x", "127.0.0.1:9000"}, Has: true, Sub: []SubLine{{Toks: []string{"ext", ".php"}}, {Toks: []string{"split", ".php"}}, {Toks: []string{"env", "A", "b"}}}}},
	"gzip":       {{Name: "gzip"}, {Name: "gzip", Has: true, Sub: []SubLine{{Toks: []string{"ext", ".txt"}}, {Toks: []string{"level", "5"}}, {Toks: []string{"min_length", "10"}}}}},
	"header":     {{Name: "header", Args: []string{"/", "X-A", "b"}}, {Name: "header", Args: []string{"/x"}, Has: true, Sub: []SubLine{{Toks: []string{"X-A", "b"}}, {Toks: []string{"-Server"}}}}},
	"index":      {{Name: "index", Args: []string{"a.html", "b.html"}}},
	"internal":   {{Name: "internal", Args: []string{"/internal"}}},
	"limits":     {{Name: "limits", Args: []string{"1MB"}}, {Name: "limits", Has: true, Sub: []SubLine{{Toks: []string{"header", "4KB"}}, {Toks: []string{"body", "/up", "5MB"}}}}},
	"log":        {{Name: "log"}, {Name: "log", Args: []string{"/", "a.log", "{common}"}, Has: true, Sub: []SubLine{{Toks: []string{"except", "/x"}}, {Toks: []string{"ipmask", "255.255.0.0"}}, {Toks: []string{"rotate_keep", "3"}}}}},
	"markdown":   {{Name: "markdown"}, {Name: "markdown", Args: []string{"/md"}, Has: true, Sub: []SubLine{{Toks: []string{"ext", ".md"}}, {Toks: []string{"css", "/a.css"}}}}},
	"mime":       {{Name: "mime", Args: []string{".x", "text/x"}}, {Name: "mime", Has: true, Sub: []SubLine{{Toks: []string{".a", "text/a"}}}}},
	"on":         {{Name: "on", Args: []string{"startup", "true"}}, {Name: "on", Args: []string{"shutdown", "true", "&"}}},
	"pprof":      {{Name: "pprof"}},
	"proxy":      {{Name: "proxy", Args: []string{"/", "127.0.0.1:9"}}, {Name: "proxy", Args: []string{"/p", "127.0.0.1:9", "127.0.0.1:10"}, Has: true, Sub: []SubLine{{Toks: []string{"policy", "round_robin"}}, {Toks: []string{"max_fails", "2"}}, {Toks: []string{"header_upstream", "X-A", "b"}}, {Toks: []string{"transparent"}}}}},
	"push":       {{Name: "push"}, {Name: "push", Args: []string{"/a", "/b.css"}}, {Name: "push", Args: []string{"/a"}, Has: true, Sub: []SubLine{{Toks: []string{"method", "GET"}}, {Toks: []string{"header", "X", "y"}}, {Toks: []string{"/c.js"}}}}},
	"redir":      {{Name: "redir", Args: []string{"/a", "/b", "301"}}, {Name: "redir", Args: []string{"https://x.test{uri}"}}, {Name: "redir", Args: []string{"302"}, Has: true, Sub: []SubLine{{Toks: []string{"if", "{path}", "is", "/x"}}, {Toks: []string{"/a", "/b"}}}}},
	"request_id": {{Name: "request_id"}, {Name: "request_id", Args: []string{"X-Rid"}}},
	"rewrite":    {{Name: "rewrite", Args: []string{"/a", "/b"}}, {Name: "rewrite", Has: true, Sub: []SubLine{{Toks: []string{"r", "^/x/(.*)$"}}, {Toks: []string{"to", "/{1}"}}}}},
	"root":       {{Name: "root", Args: []string{"."}}},
	"status":     {{Name: "status", Args: []string{"404", "/x"}}, {Name: "status", Args: []string{"410"}, Has: true, Sub: []SubLine{{Toks: []string{"/a"}}, {Toks: []string{"/b"}}}}},
	"templates":  {{Name: "templates"}, {Name: "templates", Args: []string{"/t", ".html"}}, {Name: "templates", Has: true, Sub: []SubLine{{Toks: []string{"path", "/t"}}, {Toks: []string{"ext", ".html"}}, {Toks: []string{"between", "<<", ">>"}}}}},
	"timeouts":   {{Name: "timeouts", Args: []string{"30s"}}, {Name: "timeouts", Has: true, Sub: []SubLine{{Toks: []string{"read", "10s"}}, {Toks: []string{"idle", "none"}}}}},
	"tls":        {{Name: "tls", Args: []string{"off"}}, {Name: "tls", Args: []string{"self_signed"}}, {Name: "tls", Args: []string{"a@b.test"}}, {Name: "tls", Has: true, Sub: []SubLine{{Toks: []string{"protocols", "tls1.2", "tls1.3"}}, {Toks: []string{"key_type", "p256"}}}}, {Name: "tls", Args: []string{"cert.pem", "key.pem"}}, {Name: "tls", Args: []string{"self_signed"}, Has: true, Sub: []SubLine{{Toks: []string{"key_type", "p384"}}}}, {Name: "tls", Args: []string{"self_signed"}, Has: true, Sub: []SubLine{{Toks: []string{"key_type", "ed25519"}}}}, {Name: "tls", Args: []string{"self_signed"}, Has: true, Sub: []SubLine{{Toks: []string{"key_type", "rsa2048"}}, {Toks: []string{"protocols", "tls1.2"}}}}, {Name: "tls", Has: true, Sub: []SubLine{{Toks: []string{"wildcard"}}}}, {Name: "tls", Args: []string{"a@b.test"}, Has: true, Sub: []SubLine{{Toks: []string{"wildcard"}}, {Toks: []string{"must_staple"}}}}},
	"tryfiles":   {{Name: "tryfiles", Args: []string{"{path}", "/index.html"}}},
	"websocket":  {{Name: "websocket", Args: []string{"/ws", "true"}}, {Name: "websocket", Has: true, Sub: []SubLine{{Toks: []string{"respawn"}}}}},
}

var dirNames = func() []string {
	var n []string
	for k := range valid {
		n = append(n, k)
	}
	sort.Strings(n)
	return n
}()

// lexical classes of values; command, file and interval slots stay harmless
var values = []string{"", "0", "1", "-1", "5", "99999999999999999999", "65536", "65535", "255", "256", "2147483647", "2147483648", "4294967295", "4294967296", "9223372036854775807", "9223372036854775808", "-2147483649", "1e9", "0x10", "007", "1s", "0s", "-5s", "10m", "none", "off", "on", "*", "/", "/x", "x", ".php", "1MB", "4KB", "0B", "-1KB", "1GB", "9999999GB", "KB",
	"missing.txt", "ht.txt", "htpasswd=ht.txt", "htpasswd=missing.txt", "htpasswd=bad-ht.txt", "htpasswd=", "htpasswd=dir", "Casketfile", "./Casketfile", "bad-ht.txt", "cert.pem", "key.pem", "page.html", "dir", "./", "a.log", "stdout", "stderr", "syslog", "http://127.0.0.1:9", "https://127.0.0.1:9", "127.0.0.1:9", "localhost:9-12", "localhost:70000", "localhost:65533-65535", "localhost:65535-65535", "localhost:65535", "localhost:12-9", "localhost:65534-65536", "localhost:0-2", "localhost:1-", "localhost:-5", "localhost:5-5-5", "unix:/nonexistent.sock", "srv://x.test", "://", "h:p:q",
	"^(.*)$", "(", "[a-", "{path}", "{>X}", "{1}", "{$HOME}", "text/plain", "tls1.2", "tls1.0", "ssl3", "p256", "p384", "ed25519", "rsa2048", "rsa1024", "X25519", "ECDHE-RSA-AES128-GCM-SHA256", "GET", "get", "301", "999", "abc", "is", "not", "match", "true", "false", "nonexistent-command-xyz", "&", "ü", strings.Repeat("a", 300), "a b", "\"", "255.255.255.0", "ffff::", "300.1.1.1", "round_robin", "header", "ip_hash", "random", "startup", "shutdown", "certrenew", "bogus_event", "zip", "tar.gz", "rar", "lines", "text", "binary", "request", "require", "verify_if_given", "ca.pem",
	// command texts that are not blank yet hold no word once a shell-like splitter is done with them
	"#", "# todo", "#!/bin/true", "   ", "\t", "''", "\\", "'", "a 'b", "$(", "`"}

func genValue(t *rapid.T, lb string) string {
	return rapid.SampledFrom(values).Draw(t, lb)
}

// category groups values by what kind of slot they are aimed at, so that a
// replaced argument is often replaced by another spelling of the same kind
// (an address by an address, a number by a number ...).
func category(v string) string {
	switch {
	case v == "":
		return "empty"
	case strings.Contains(v, "://") || (strings.Contains(v, ":") && strings.ContainsAny(v, "0123456789") && !strings.ContainsAny(v, "{ ")):
		return "address"
	case strings.HasSuffix(v, "B") && len(v) > 1 && v != "KB" || v == "KB":
		return "size"
	case len(v) > 1 && strings.ContainsAny(v[len(v)-1:], "smh") && strings.ContainsAny(v[:1], "-0123456789"):
		return "duration"
	case strings.Trim(v, "-0123456789ex") == "":
		return "number"
	case strings.HasPrefix(v, "/") || strings.HasPrefix(v, "."):
		return "path"
	case strings.HasSuffix(v, ".txt") || strings.HasSuffix(v, ".pem") || strings.HasSuffix(v, ".html") || strings.HasSuffix(v, ".log"):
		return "file"
	}
	return "word"
}

var valuesByCategory = func() map[string][]string {
	m := map[string][]string{}
	for _, v := range values {
		m[category(v)] = append(m[category(v)], v)
	}
	return m
}()

// genReplacement draws a new value for a slot that held old.
func genReplacement(t *rapid.T, lb, old string) string {
	if same := valuesByCategory[category(old)]; len(same) > 1 && rapid.Bool().Draw(t, lb+"same") {
		return rapid.SampledFrom(same).Draw(t, lb+"sv")
	}
	return genValue(t, lb)
}

func cloneDir(d Dir) Dir {
	n := Dir{Name: d.Name, Has: d.Has, Args: append([]string{}, d.Args...)}
	for _, s := range d.Sub {
		n.Sub = append(n.Sub, SubLine{Toks: append([]string{}, s.Toks...)})
	}
	return n
}

func genDir(t *rapid.T, lb string) Dir {
	name := rapid.SampledFrom(dirNames).Draw(t, lb+"name")
	var d Dir
	if rapid.IntRange(0, 2).Draw(t, lb+"fromvalid") != 0 {
		d = cloneDir(rapid.SampledFrom(valid[name]).Draw(t, lb+"v"))
	} else {
		d = Dir{Name: name}
	}
	// mutate arguments
	nm := rapid.IntRange(0, 3).Draw(t, lb+"nm")
	for i := 0; i < nm; i++ {
		m := fmt.Sprintf("%sm%d", lb, i)
		switch rapid.IntRange(0, 6).Draw(t, m+"k") {
		case 6: // a token after the closing brace, on the same line
			d.Has = true
			if len(d.After) < 2 {
				d.After = append(d.After, genValue(t, m+"after"))
			}
		case 0: // drop an argument
			if len(d.Args) > 0 {
				j := rapid.IntRange(0, len(d.Args)-1).Draw(t, m+"j")
				d.Args = append(d.Args[:j], d.Args[j+1:]...)
			}
		case 1: // add an argument
			if len(d.Args) < 6 {
				d.Args = append(d.Args, genValue(t, m+"a"))
			}
		case 2: // replace an argument
			if len(d.Args) > 0 {
				j := rapid.IntRange(0, len(d.Args)-1).Draw(t, m+"j")
				d.Args[j] = genReplacement(t, m+"a", d.Args[j])
			}
		case 3: // add a sub-block line from the directive's own vocabulary (or junk)
			d.Has = true
			var kw string
			if v := vocab[name]; len(v) > 0 && rapid.IntRange(0, 4).Draw(t, m+"junk") != 0 {
				kw = rapid.SampledFrom(v).Draw(t, m+"kw")
			} else {
				kw = genValue(t, m+"kwj")
			}
			l := SubLine{Toks: []string{kw}}
			na := rapid.IntRange(0, 4).Draw(t, m+"na")
			for k := 0; k < na; k++ {
				l.Toks = append(l.Toks, genValue(t, fmt.Sprintf("%sa%d", m, k)))
			}
			if rapid.IntRange(0, 9).Draw(t, m+"nest") == 0 {
				l.Nested = []SubLine{{Toks: []string{genValue(t, m+"n1"), genValue(t, m+"n2")}}}
			}
			d.Sub = append(d.Sub, l)
		case 4: // mutate a sub-block line
			if len(d.Sub) > 0 {
				j := rapid.IntRange(0, len(d.Sub)-1).Draw(t, m+"j")
				l := &d.Sub[j]
				switch rapid.IntRange(0, 2).Draw(t, m+"sk") {
				case 0:
					if len(l.Toks) > 1 {
						l.Toks = l.Toks[:len(l.Toks)-1]
					}
				case 1:
					l.Toks = append(l.Toks, genValue(t, m+"a"))
				case 2:
					jj := rapid.IntRange(0, len(l.Toks)-1).Draw(t, m+"jj")
					l.Toks[jj] = genReplacement(t, m+"a", l.Toks[jj])
				}
			}
		case 5: // empty block
			d.Has = true
		}
	}
	// harness hygiene: health checks must not poll fast (goroutines outlive a validation)
	for i := range d.Sub {
		if len(d.Sub[i].Toks) >= 2 && d.Sub[i].Toks[0] == "health_check_interval" {
			switch d.Sub[i].Toks[1] {
			case "1s", "0s", "-5s", "0", "1", "5", "-1":
				if !vt.Open("proxy-health-interval-nonpositive") && (d.Sub[i].Toks[1] == "0s" || d.Sub[i].Toks[1] == "-5s") {
					continue // non-positive intervals are what C11 wants to see rejected
				}
				d.Sub[i].Toks[1] = "10m"
			}
		}
	}
	return d
}

var keySets = [][]string{{"localhost:0"}, {"localhost:0"}, {"http://a.test:0", "http://b.test:0"}, {"127.0.0.1:0"}, {":0"}, {"http://a.b.example.com:0", "localhost:0"}, {"localhost:0", "http://a.b.example.com:0"},
	// names that would qualify for managed TLS: only ever validated, never started (no ACME in the sandbox)
	{"a.b.example.com:8443", "localhost:8443"}, {"localhost:8443", "a.b.example.com:8443"}, {"a.b.example.com:8443", "c.d.example.org:8443"}, {"a.b.example.com:8443"}}

func mayTriggerACME(keys []string) bool {
	for _, k := range keys {
		if strings.Contains(k, "example.") && !strings.HasPrefix(k, "http://") {
			return true
		}
	}
	return false
}

func genCase(t *rapid.T) *Case {
	c := &Case{Keys: rapid.SampledFrom(keySets).Draw(t, "keys")}
	n := rapid.IntRange(1, 3).Draw(t, "ndirs")
	seen := map[string]bool{}
	for i := 0; i < n; i++ {
		d := genDir(t, fmt.Sprintf("d%d", i))
		if seen[d.Name] && (d.Name == "root" || d.Name == "bind") {
			continue
		}
		seen[d.Name] = true
		c.Dirs = append(c.Dirs, d)
	}
	c.Real = rapid.IntRange(0, 6).Draw(t, "real") == 0 && !mayTriggerACME(c.Keys)
	return c
}

func setupFiles() {
	// files some arguments name; everything is relative to the sandbox cwd
	os.WriteFile("ht.txt", []byte("bob:{SHA}W6ph5Mm5Pz8GgiULbPgzG37mj9g=\n"), 0o644)
	os.WriteFile("bad-ht.txt", []byte("this line has no colon\n"), 0o644)
	os.WriteFile("Casketfile", []byte("# the file the inputs claim to come from\n"), 0o644)
	os.WriteFile("page.html", []byte("<html>page</html>"), 0o644)
	os.WriteFile("404.html", []byte("<html>404</html>"), 0o644)
	os.MkdirAll("dir", 0o755)
}

func hardFail(sub string, c interface{}) func(string) {
	return func(msg string) {
		p := vt.WriteReplay(sub, c, msg)
		fmt.Printf("C11/%s: %s\nreplay: %s\n", sub, msg, p)
		vt.Flush()
		os.Exit(1)
	}
}

func TestSetup(t *testing.T) {
	if vt.ReplayPath() != "" {
		t.Skip("replay mode")
	}
	setupFiles()
	rapid.Check(t, func(t *rapid.T) {
		c := genCase(t)
		vt.Current("setup", c)
		_, err := runCase(c, hardFail("setup", c))
		nontrivial := false
		classes := []string{}
		for _, d := range c.Dirs {
			if len(d.Args) > 0 || d.Has {
				nontrivial = true
			}
			classes = append(classes, "dir:"+d.Name)
		}
		if c.Real {
			classes = append(classes, "also-started")
		}
		vt.Record("setup", c, nontrivial, classes...)
		vt.Check(t, "setup", c, err)
	})
}

// hostile constants: the spellings the repository's own defects were found with, plus arity edge cases
var constants = []string{
	"localhost:0 {\n\ttls {\n\t\tkey_type\n\t}\n\tzz_end\n}\n",
	"localhost:0 {\n\ttls self_signed {\n\t\tkey_type ed25519\n\t}\n\tzz_end\n}\n", "localhost:0 {\n\ttls self_signed {\n\t\tkey_type p384\n\t}\n\tzz_end\n}\n", "localhost:0 {\n\ttls self_signed {\n\t\tkey_type bogus\n\t}\n\tzz_end\n}\n",
	"localhost:0 {\n\ttls {\n\t\tprotocols\n\t}\n\tzz_end\n}\n",
	"localhost:0 {\n\tlimits {\n\t\tbody \"\" 5\n\t}\n\tzz_end\n}\n",
	"localhost:0 {\n\tbasicauth /s bob htpasswd=missing.txt\n\tzz_end\n}\n",
	"localhost:0 {\n\tbasicauth /s bob htpasswd=bad-ht.txt\n\tzz_end\n}\n",
	"localhost:0 {\n\troot Casketfile\n\tzz_end\n}\n", "localhost:0 {\n\troot ./Casketfile\n\tzz_end\n}\n", "localhost:0 {\n\troot missing-dir\n\tzz_end\n}\n",
	"localhost:0 {\n\tbasicauth /s bob htpasswd=ht.txt\n\tzz_end\n}\n",
	"localhost:0 {\n\terrors {\n\t\trotate_size 5\n\t}\n\tzz_end\n}\n",
	"localhost:0 {\n\terrors visible {\n\t\trotate_keep 5\n\t}\n\tzz_end\n}\n",
	"localhost:0 {\n\tproxy / 127.0.0.1:9 {\n\t\thealth_check /x\n\t\thealth_check_interval 0s\n\t}\n\tzz_end\n}\n",
	"localhost:0 {\n\tproxy / 127.0.0.1:9 {\n\t\thealth_check /x\n\t\thealth_check_interval -5s\n\t}\n\tzz_end\n}\n",
	"localhost:0 {\n\ton startup \"#!/bin/true\"\n\tzz_end\n}\n", "localhost:0 {\n\ton startup \"# todo\"\n\tzz_end\n}\n", "localhost:0 {\n\ton shutdown \"   \"\n\tzz_end\n}\n", "localhost:0 {\n\ton startup ''\n\tzz_end\n}\n",
	"localhost:0 {\n\twebsocket /ws \"# todo\"\n\tzz_end\n}\n", "localhost:0 {\n\twebsocket /ws \"'\"\n\tzz_end\n}\n", "localhost:0 {\n\twebsocket \"#\"\n\tzz_end\n}\n",
	// error paths of proxy next to an upstream whose backend is hung (takes the connection, never answers)
	"localhost:0 {\n\tproxy /a {HUNG} {\n\t\thealth_check /h\n\t\thealth_check_timeout 0\n\t}\n\tproxy /b 127.0.0.1:9 {\n\t\tpolicy nosuchpolicy\n\t}\n\tzz_end\n}\n",
	"localhost:0 {\n\tproxy /a {HUNG} {\n\t\thealth_check /h\n\t\thealth_check_timeout 0\n\t}\n\tproxy /b 127.0.0.1:9 {\n\t\tmax_fails 0\n\t}\n\tzz_end\n}\n",
	"localhost:0 {\n\tproxy /a {HUNG} {\n\t\thealth_check /h\n\t\thealth_check_timeout 0\n\t}\n\tproxy /b 127.0.0.1:9 {\n\t\tnosuchproperty x\n\t}\n\tzz_end\n}\n",
	"localhost:0 {\n\tproxy /a {HUNG} {\n\t\thealth_check /h\n\t\thealth_check_timeout 0\n\t}\n\tstatus notanumber /\n\tzz_end\n}\n",
	"localhost:0 {\n\tproxy / localhost:65533-65535\n\tzz_end\n}\n", "localhost:0 {\n\tproxy / localhost:65535-65535\n\tzz_end\n}\n", "localhost:0 {\n\tproxy / {\n\t\tupstream localhost:65534-65535\n\t}\n\tzz_end\n}\n", "localhost:0 {\n\tproxy / localhost:12-9\n\tzz_end\n}\n",
	"localhost:0 {\n\tredir\n\tzz_end\n}\n", "localhost:0 {\n\tmime\n\tzz_end\n}\n", "localhost:0 {\n\tstatus\n\tzz_end\n}\n", "localhost:0 {\n\theader\n\tzz_end\n}\n",
	"localhost:0 {\n\ttls {\n\t\tclients\n\t}\n\tzz_end\n}\n", "localhost:0 {\n\ttls {\n\t\tciphers\n\t}\n\tzz_end\n}\n", "localhost:0 {\n\ttls {\n\t\tcurves\n\t}\n\tzz_end\n}\n", "localhost:0 {\n\ttls {\n\t\talpn\n\t}\n\tzz_end\n}\n",
	"localhost:0 {\n\ttls {\n\t\tdns\n\t}\n\tzz_end\n}\n", "localhost:0 {\n\ttls {\n\t\tload\n\t}\n\tzz_end\n}\n", "localhost:0 {\n\ttls {\n\t\tmax_certs\n\t}\n\tzz_end\n}\n", "localhost:0 {\n\ttls {\n\t\task\n\t}\n\tzz_end\n}\n", "localhost:0 {\n\ttls {\n\t\tca\n\t}\n\tzz_end\n}\n",
}

type textCase struct {
	Text string `json:"text"`
}

var (
	hungOnce sync.Once
	hungAddr string
	hungLn   net.Listener // kept: an unreferenced listener is closed by its finalizer
)

// hungBackend is the address of a peer that takes connections (the kernel completes the handshake from
// the listen backlog) and never answers: a hung upstream.
func hungBackend() string {
	hungOnce.Do(func() {
		l, err := net.Listen("tcp", "127.0.0.1:0")
		if err != nil {
			panic(err)
		}
		hungLn = l
		hungAddr = l.Addr().String() // never accepted from, never closed
	})
	return hungAddr
}

func runText(c *textCase, hard func(string)) error {
	text := strings.ReplaceAll(c.Text, "{HUNG}", hungBackend())
	input := casket.CasketfileInput{Contents: []byte(text), Filepath: "Casketfile", ServerTypeName: "http"}
	// twice: the second load must not hang on state left by the first
	for i := 0; i < 2; i++ {
		v := guarded(func() error { return casket.ValidateAndExecuteDirectives(input, nil, true) })
		if v.slow {
			return fmt.Errorf("HARNESS: validation took more than 20 s but did return (starved machine): no verdict")
		}
		if v.hung {
			hard(fmt.Sprintf("validating (attempt %d) did not return (20 s on a responsive machine, 120 s on a starved one):\n%s", i+1, c.Text))
			return fmt.Errorf("HANG")
		}
		if v.pan != nil {
			return fmt.Errorf("directive setup panicked under -validate: %v\nconfiguration:\n%s\n%s", v.pan, c.Text, v.stack)
		}
	}
	// and once for real: a start runs callbacks that a validation skips
	if !strings.HasPrefix(c.Text, "localhost:0 {") {
		return nil
	}
	var inst *casket.Instance
	s := guarded(func() error {
		var e error
		inst, e = casket.Start(input)
		return e
	})
	if inst != nil && s.err == nil && !s.hung {
		srv.Stop(inst)
	}
	if s.slow {
		return fmt.Errorf("HARNESS: start took more than 20 s but did return (starved machine): no verdict")
	}
	if s.hung {
		hard(fmt.Sprintf("starting the configuration did not return (20 s on a responsive machine, 120 s on a starved one):\n%s", c.Text))
		return fmt.Errorf("HANG")
	}
	if s.pan != nil {
		return fmt.Errorf("casket.Start panicked: %v\nconfiguration:\n%s\n%s", s.pan, c.Text, s.stack)
	}
	return nil
}

func TestConstants(t *testing.T) {
	if vt.ReplayPath() != "" {
		t.Skip("replay mode")
	}
	setupFiles()
	for _, s := range constants {
		c := &textCase{Text: s}
		vt.Current("constants", c)
		err := runText(c, hardFail("constants", c))
		vt.Record("constants", c, true, "constant")
		vt.Check(t, "constants", c, err)
	}
}

func replayCase(rf *vt.ReplayFile) error {
	setupFiles()
	switch rf.Sub {
	case "setup":
		var c Case
		if err := vt.Decode(rf, &c); err != nil {
			return err
		}
		_, err := runCase(&c, func(msg string) { fmt.Println(msg); os.Exit(1) })
		return err
	case "env":
		var c envCase
		if err := vt.Decode(rf, &c); err != nil {
			return err
		}
		return runEnv(&c, func(msg string) { fmt.Println(msg); os.Exit(1) })
	case "constants":
		var c textCase
		if err := vt.Decode(rf, &c); err != nil {
			return err
		}
		return runText(&c, func(msg string) { fmt.Println(msg); os.Exit(1) })
	}
	return fmt.Errorf("HARNESS: unknown sub %q", rf.Sub)
}

func TestReplay(t *testing.T) { vt.RunReplay(t, replayCase) }
func TestCorpus(t *testing.T) { vt.RunCorpus(t, replayCase) }

var _ = filepath.Join
