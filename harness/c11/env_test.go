package c11

import (
	"fmt"
	"os"
	"testing"

	"github.com/tmpim/casket"

	"verif/harness/internal/vt"
)

// env: process-level switches that casket reads from the environment, each exercised in a process of
// its own (this test runs as a separate job), because casket consults some of them only on the first
// load of a process.  For every setting the same small configuration is loaded several times in a row:
// every load ends in bounded time with success or an error, none panics.

type envCase struct {
	Name  string `json:"name"`
	Value string `json:"value"`
	Text  string `json:"text"`
}

var envCases = []envCase{
	{"CASKET_CLUSTERING", "no-such-cluster-plugin", "localhost:0 {\n\ttls off\n\tzz_end\n}\n"},
	{"CASKET_CLUSTERING", "", "localhost:0 {\n\ttls off\n\tzz_end\n}\n"},
	{"CASE_SENSITIVE_PATH", "maybe", "localhost:0 {\n\tbrowse /\n\tzz_end\n}\n"},
	{"CASKETPATH", "/proc/nonexistent/dir", "localhost:0 {\n\ttls off\n\tzz_end\n}\n"},
	{"HOME", "", "localhost:0 {\n\ttls off\n\tzz_end\n}\n"},
}

func runEnv(c *envCase, hard func(string)) error {
	old, had := os.LookupEnv(c.Name)
	os.Setenv(c.Name, c.Value)
	defer func() {
		if had {
			os.Setenv(c.Name, old)
		} else {
			os.Unsetenv(c.Name)
		}
	}()
	input := casket.CasketfileInput{Contents: []byte(c.Text), Filepath: "Casketfile", ServerTypeName: "http"}
	for i := 0; i < 3; i++ {
		v := guarded(func() error { return casket.ValidateAndExecuteDirectives(input, nil, true) })
		if v.slow {
			return fmt.Errorf("HARNESS: load %d took more than 20 s but did return (starved machine): no verdict", i+1)
		}
		if v.hung {
			hard(fmt.Sprintf("with %s=%q in the environment, load %d of the same small configuration did not return (20 s on a responsive machine, 120 s on a starved one); earlier loads had returned", c.Name, c.Value, i+1))
			return fmt.Errorf("HANG")
		}
		if v.pan != nil {
			return fmt.Errorf("with %s=%q in the environment, load %d panicked: %v\n%s", c.Name, c.Value, i+1, v.pan, v.stack)
		}
	}
	return nil
}

func TestEnv(t *testing.T) {
	if vt.ReplayPath() != "" {
		t.Skip("replay mode")
	}
	setupFiles()
	for i := range envCases {
		c := &envCases[i]
		vt.Current("env", c)
		err := runEnv(c, hardFail("env", c))
		vt.Record("env", c, c.Value != "", "env:"+c.Name)
		vt.Check(t, "env", c, err)
	}
}
