package c03

import (
	"bytes"
	"crypto/sha1"
	"encoding/base64"
	"fmt"
	"net"
	"net/http"
	"net/http/fcgi"
	"net/http/httptest"
	"net/url"
	"os"
	"path"
	"path/filepath"
	"regexp"
	"sort"
	"strings"
	"sync"
	"testing"
	"time"

	"github.com/tmpim/casket"
	"pgregory.net/rapid"

	"verif/harness/internal/fixture"
	"verif/harness/internal/srv"
	"verif/harness/internal/vt"
)

func TestMain(m *testing.M) {
	vt.Property = "C03"
	vt.Main(m, "C03_DEBUG")
}

var (
	treeOnce sync.Once
	tree     *fixture.Tree
	backend  *httptest.Server
	fcgiAddr string
	htFile   string
)

func setupOnce() *fixture.Tree {
	treeOnce.Do(func() {
		var err error
		tree, err = fixture.Build(filepath.Join(vt.WorkDir, "c03"))
		if err != nil {
			panic(err)
		}
		backend = httptest.NewServer(http.HandlerFunc(func(w http.ResponseWriter, r *http.Request) {
			w.Header().Set("Content-Type", "text/plain")
			fmt.Fprintf(w, "BACKEND-SAW[%s] some backend content\n", r.URL.Path)
		}))
		// a FastCGI responder (Go's own implementation) that reports the path casket's fastcgi rule matched
		l, err := net.Listen("tcp", "127.0.0.1:0")
		if err != nil {
			panic(err)
		}
		fcgiAddr = l.Addr().String()
		go fcgi.Serve(l, http.HandlerFunc(func(w http.ResponseWriter, r *http.Request) {
			w.Header().Set("Content-Type", "text/plain")
			env := fcgi.ProcessEnv(r)
			fmt.Fprintf(w, "BACKEND-SAW[%s] some fastcgi content\n", strings.TrimPrefix(env["PATH_TRANSLATED"], env["DOCUMENT_ROOT"]))
		}))
		htFile = filepath.Join(filepath.Dir(tree.Root), "c03.htpasswd") // casket resolves htpasswd= relative to the site root
		writeHtpasswd(false)
	})
	return tree
}

const revokedAlice, revokedBob = "old-alice-pw", "old-bob-pw"

// writeHtpasswd writes the htpasswd file: the rule users plus a user no rule names.  The previous
// generation of the file holds other passwords for alice and bob (hashes are of equal length, so the
// file size is the same) and is newer than the current one: the current file is what an operator put
// back from a backup with its old modification time.
func writeHtpasswd(previous bool) {
	sha := func(p string) string {
		h := sha1.Sum([]byte(p))
		return "{SHA}" + base64.StdEncoding.EncodeToString(h[:])
	}
	a, b, at := "wonder-land", "builder", time.Now().Add(-48*time.Hour)
	if previous {
		a, b, at = revokedAlice, revokedBob, time.Now().Add(-time.Hour)
	}
	tmp := htFile + ".tmp"
	os.WriteFile(tmp, []byte("carol:"+sha("carol-pass")+"\nalice:"+sha(a)+"\nbob:"+sha(b)+"\n"), 0o644)
	os.Chtimes(tmp, at, at)
	os.Rename(tmp, htFile)
}

// ---------------------------------------------------------------------------

type AuthRule struct {
	Resources []string `json:"resources"` // as written in the Casketfile
	User      string   `json:"user"`
	Pass      string   `json:"pass"`
	Exclude   []string `json:"exclude,omitempty"`
	Realm     bool     `json:"realm,omitempty"`
	Htpasswd  bool     `json:"htpasswd,omitempty"` // the password is looked up in an htpasswd file
}

type Site struct {
	Auth     []AuthRule `json:"auth,omitempty"`
	Internal []string   `json:"internal,omitempty"`
	Others   []string   `json:"others"` // names from otherText
}

type Req struct {
	Method string `json:"method"`
	Target string `json:"target"`
	AE     string `json:"ae"`
	Cred   string `json:"cred"` // none | wrongpw | wronguser | malformed | rule0 | rule1
}

type Case struct {
	Site Site  `json:"site"`
	Reqs []Req `json:"reqs"`
	// HtRotate: the site was first loaded while the htpasswd file held other passwords for the rule users;
	// the file was then replaced by the current one (same size, older modification time) and the
	// configuration reloaded.  Credential kind "revoked" presents such a former password.
	HtRotate bool `json:"ht_rotate,omitempty"`
}

var otherText = map[string]string{
	"rewrite-in":     "rewrite /alias /secret/s1.txt",
	"rewrite-in-int": "rewrite /ialias /internal/i1.txt",
	"rewrite-out":    "rewrite /secret/out /public/p1.txt",
	"rewrite-re":     "rewrite {\n\t\tregexp ^/r/(.*)$\n\t\tto /{1}\n\t}",
	"rewrite-to":     "rewrite /try {\n\t\tto {path} /secret/s1.txt\n\t}",
	"tryfiles":       "tryfiles {path} {path}/ /secret/page.html",
	"ext":            "ext .txt .html",
	"index":          "index s1.txt i1.txt index.html",
	"gzip":           "gzip",
	"browse":         "browse /",
	"browse-arch":    "browse / {\n\t\tservearchive zip tar tar.gz\n\t}",
	"markdown":       "markdown /",
	"templates":      "templates /",
	"proxy-secret":   "proxy /secret/api {BACKEND}",
	"proxy-internal": "proxy /internal/api {BACKEND}",
	"proxy-pub":      "proxy /papi {BACKEND}",
	"fcgi-secret":    "fastcgi /secret/fcgi {FCGI}",
	"fcgi-internal":  "fastcgi /internal/fcgi {FCGI}",
	"fcgi-pub":       "fastcgi /pfcgi {FCGI}",
	"rewrite-fcgi":   "rewrite /falias /secret/fcgi/x",
	"header":         "header / X-Frame-Options DENY",
	"mime":           "mime .txt text/plain",
}

var otherNames = func() []string {
	var n []string
	for k := range otherText {
		n = append(n, k)
	}
	sort.Strings(n)
	return n
}()

func siteBlock(host string, s Site, protect bool) string {
	t := setupOnce()
	var sb strings.Builder
	fmt.Fprintf(&sb, "http://%s:0 {\n\troot %s\n", host, t.Root)
	if protect {
		for _, a := range s.Auth {
			pass := a.Pass
			if a.Htpasswd {
				pass = "htpasswd=../c03.htpasswd"
			}
			if len(a.Resources) == 1 && len(a.Exclude) == 0 && !a.Realm {
				fmt.Fprintf(&sb, "\tbasicauth %s %s %s\n", a.Resources[0], a.User, pass)
				continue
			}
			fmt.Fprintf(&sb, "\tbasicauth %s %s {\n", a.User, pass)
			for _, r := range a.Resources {
				fmt.Fprintf(&sb, "\t\t%s\n", r)
			}
			for _, e := range a.Exclude {
				fmt.Fprintf(&sb, "\t\texclude %s\n", e)
			}
			if a.Realm {
				sb.WriteString("\t\trealm \"Members only\"\n")
			}
			sb.WriteString("\t}\n")
		}
		for _, p := range s.Internal {
			fmt.Fprintf(&sb, "\tinternal %s\n", p)
		}
	}
	for _, o := range s.Others {
		fmt.Fprintf(&sb, "\t%s\n", strings.ReplaceAll(strings.ReplaceAll(otherText[o], "{BACKEND}", backend.URL), "{FCGI}", fcgiAddr))
	}
	sb.WriteString("}\n")
	return sb.String()
}

func unquote(s string) string { return strings.Trim(s, `"`) }

// documented matcher semantics, written independently: cleaned, case-insensitive prefix
func matches(p, base string) bool {
	base = unquote(base)
	if base == "/" || base == "" {
		return true
	}
	pt, bt := strings.HasSuffix(p, "/"), strings.HasSuffix(base, "/")
	p, base = path.Clean(p), path.Clean(base)
	if pt {
		p += "/"
	}
	if bt {
		base += "/"
	}
	return strings.HasPrefix(strings.ToLower(p), strings.ToLower(base))
}

// ruleProtects: does rule a protect the URL path p?
func ruleProtects(a AuthRule, p string) bool {
	hit := false
	for _, r := range a.Resources {
		if matches(p, r) {
			hit = true
		}
	}
	if !hit {
		return false
	}
	for _, e := range a.Exclude {
		if matches(p, e) {
			return false
		}
	}
	return true
}

// credOK: do the request's credentials satisfy rule a?
func credOK(s Site, r Req, idx int) bool {
	return r.Cred == fmt.Sprintf("rule%d", idx)
}

// disclosureForbidden: may content of the resource at URL path p be shown to this request?
func disclosureForbidden(s Site, r Req, p string) (bool, string) {
	for _, ip := range s.Internal {
		if matches(p, ip) {
			return true, "internal " + ip
		}
	}
	if r.Method == "OPTIONS" {
		return false, ""
	}
	protected, satisfied := false, false
	why := ""
	for i, a := range s.Auth {
		if ruleProtects(a, p) {
			protected = true
			why = fmt.Sprintf("basicauth %v (exclude %v)", a.Resources, a.Exclude)
			if credOK(s, r, i) {
				satisfied = true
			}
		}
	}
	return protected && !satisfied, why
}

func authHeader(s Site, cred string) string {
	enc := func(u, p string) string { return "Basic " + base64.StdEncoding.EncodeToString([]byte(u+":"+p)) }
	switch cred {
	case "none":
		return ""
	case "malformed":
		return "Basic !!!notbase64"
	case "wrongpw":
		if len(s.Auth) > 0 {
			return enc(s.Auth[0].User, "nope")
		}
		return enc("alice", "nope")
	case "emptypw":
		if len(s.Auth) > 0 {
			return enc(s.Auth[0].User, "")
		}
		return enc("alice", "")
	case "revoked":
		// a password the htpasswd file held for the rule's user before it was replaced
		u := "alice"
		if len(s.Auth) > 0 {
			u = s.Auth[0].User
		}
		if u == "bob" {
			return enc(u, revokedBob)
		}
		return enc(u, revokedAlice)
	case "fileuser":
		// a valid pair of the htpasswd file, but not the user any rule names
		return enc("carol", "carol-pass")
	case "wronguser":
		if len(s.Auth) > 0 {
			return enc("mallory", s.Auth[0].Pass)
		}
		return enc("mallory", "x")
	case "rule0":
		if len(s.Auth) > 0 {
			return enc(s.Auth[0].User, s.Auth[0].Pass)
		}
	case "rule1":
		if len(s.Auth) > 1 {
			return enc(s.Auth[1].User, s.Auth[1].Pass)
		}
	}
	return ""
}

var backendRe = regexp.MustCompile(`BACKEND-SAW\[([^\]]*)\]`)

// decodeAll returns every byte string obtainable by decoding the body
// (identity, gunzip, unzip/untar entries).
func decodeAll(resp *srv.Resp, target string) [][]byte {
	out := [][]byte{resp.Body}
	body := resp.Body
	if resp.Header.Get("Content-Encoding") == "gzip" {
		if d, err := fixture.Gunzip(body); err == nil {
			out = append(out, d)
			body = d
		}
	}
	if u, err := url.ParseRequestURI(target); err == nil {
		if k := u.Query().Get("archive"); k == "zip" || k == "tar" || k == "tar.gz" {
			if ents, err := fixture.Unarchive(k, body); err == nil {
				for _, e := range ents {
					out = append(out, e.Data)
				}
			}
		}
	}
	// precompressed gzip siblings served raw
	if d, err := fixture.Gunzip(body); err == nil {
		out = append(out, d)
	}
	return out
}

func runCase(c *Case) (nontrivial int, err error) {
	t := setupOnce()
	cf := siteBlock("prot.test", c.Site, true) + siteBlock("twin.test", c.Site, false)
	input := casket.CasketfileInput{Contents: []byte(cf), Filepath: filepath.Join(t.Base, "Casketfile"), ServerTypeName: "http"}
	if c.HtRotate {
		writeHtpasswd(true)
		defer writeHtpasswd(false)
	}
	inst, e := casket.Start(input)
	if e != nil {
		srv.Stop(inst)
		return 0, fmt.Errorf("HARNESS: start: %v\n%s", e, cf)
	}
	defer func() { srv.Stop(inst) }()
	if c.HtRotate {
		writeHtpasswd(false)
		srv.Settle(inst)
		ni, e := inst.Restart(input)
		if e != nil {
			return 0, fmt.Errorf("reloading the same configuration after the htpasswd file was replaced failed: %v", e)
		}
		inst = ni
	}
	addr := srv.Loopback(srv.Addrs(inst)[0])
	do := func(host string, r Req) (*srv.Resp, error) {
		hdr := [][2]string{{"Connection", "close"}}
		if r.AE != "-" {
			hdr = append(hdr, [2]string{"Accept-Encoding", r.AE})
		}
		if h := authHeader(c.Site, r.Cred); h != "" {
			hdr = append(hdr, [2]string{"Authorization", h})
		}
		var body []byte
		if r.Method == "POST" || r.Method == "PUT" {
			body = []byte("x=1")
		}
		return srv.Once(addr, r.Method, srv.Request(r.Method, r.Target, host, hdr, body))
	}
	disclosure := func(desc string, r Req, resp *srv.Resp) error {
		for _, blob := range decodeAll(resp, r.Target) {
			for _, f := range t.TokensIn(blob) {
				if f.Outside {
					continue
				}
				urlPath := "/" + f.Rel
				if forb, why := disclosureForbidden(c.Site, r, urlPath); forb {
					return fmt.Errorf("%s: response (status %d) contains content of %s, protected by %s", desc, resp.Status, urlPath, why)
				}
			}
			if bytes.Contains(blob, []byte("some fastcgi content")) {
				vt.Extra("protected", "responses_with_a_fastcgi_reply", 1)
			}
			for _, m := range backendRe.FindAllSubmatch(blob, -1) {
				bp := string(m[1])
				if forb, why := disclosureForbidden(c.Site, r, bp); forb {
					return fmt.Errorf("%s: response (status %d) contains the backend's reply for %s, protected by %s", desc, resp.Status, bp, why)
				}
			}
		}
		return nil
	}
	for i, r := range c.Reqs {
		resp, e := do("prot.test", r)
		if e != nil {
			continue // rejected outright by net/http (bad target): nothing disclosed
		}
		if os.Getenv("C03_DEBUG") != "" {
			fmt.Printf("DEBUG %s %s cred=%s -> %d %q\n", r.Method, r.Target, r.Cred, resp.Status, resp.Body[:min(len(resp.Body), 700)])
		}
		desc := fmt.Sprintf("request %d %s %q cred=%s AE=%q on site auth=%+v internal=%v others=%v", i, r.Method, r.Target, r.Cred, r.AE, c.Site.Auth, c.Site.Internal, c.Site.Others)
		touched := false
		// oracle 1: no content of a resource this request may not see
		if err := disclosure(desc, r, resp); err != nil {
			return nontrivial, err
		}
		if u, perr := url.ParseRequestURI(r.Target); perr == nil {
			cp := path.Clean("/" + u.Path)
			for _, sc := range []string{"/secret", "/internal", "/noindex/priv"} {
				if strings.HasPrefix(strings.ToLower(cp), sc) {
					touched = true
				}
			}
			if strings.Contains(r.Target, "fcgi") {
				touched = true
			}
			if strings.Contains(r.Target, "alias") || strings.HasPrefix(u.Path, "/r/") || u.Query().Get("archive") != "" || strings.HasPrefix(u.Path, "/try") {
				touched = true
			}
		}
		if touched {
			nontrivial++
		}
		// oracle 2: with valid credentials the request is served as on the unprotected twin
		if len(c.Site.Internal) == 0 && (r.Cred == "rule0" || r.Cred == "rule1") {
			u, perr := url.ParseRequestURI(r.Target)
			if perr != nil {
				continue
			}
			// only when these credentials satisfy every rule protecting the final resource is
			// "served normally" defined; compare when the request path itself is protected by
			// exactly the rule whose credentials are presented
			idx := 0
			if r.Cred == "rule1" {
				idx = 1
			}
			if idx >= len(c.Site.Auth) {
				continue
			}
			others := false
			for j, a := range c.Site.Auth {
				if j != idx && len(a.Resources) > 0 {
					others = true
				}
			}
			if others {
				continue
			}
			_ = u
			twin, e2 := do("twin.test", r)
			if e2 != nil {
				continue
			}
			if twin.Status != resp.Status {
				return nontrivial, fmt.Errorf("%s: valid credentials, status %d; the same site without the protection directive answers %d", desc, resp.Status, twin.Status)
			}
			if r.Method != "HEAD" && !bytes.Equal(normalise(twin.Body), normalise(resp.Body)) && u.Query().Get("archive") == "" {
				return nontrivial, fmt.Errorf("%s: valid credentials, body (%d bytes) differs from the body of the same site without the protection directive (%d bytes)", desc, len(resp.Body), len(twin.Body))
			}
		}
	}
	// the same requests once more, several at a time: what a request is shown
	// must not depend on the credentials other requests are presenting meanwhile
	var wg sync.WaitGroup
	cerr := make(chan error, 8)
	for g := 0; g < 8; g++ {
		wg.Add(1)
		go func(g int) {
			defer wg.Done()
			for k := range c.Reqs {
				i := (k*7 + g*3) % len(c.Reqs)
				r := c.Reqs[i]
				resp, e := do("prot.test", r)
				if e != nil {
					continue
				}
				desc := fmt.Sprintf("request %d %s %q cred=%s AE=%q, issued while 7 other clients were sending the case's other requests, on site auth=%+v internal=%v others=%v", i, r.Method, r.Target, r.Cred, r.AE, c.Site.Auth, c.Site.Internal, c.Site.Others)
				if err := disclosure(desc, r, resp); err != nil {
					select {
					case cerr <- err:
					default:
					}
					return
				}
			}
		}(g)
	}
	wg.Wait()
	select {
	case err := <-cerr:
		return nontrivial, err
	default:
	}
	return nontrivial, nil
}

// browse listings embed the Host; normalise it away
func normalise(b []byte) []byte {
	return bytes.ReplaceAll(b, []byte("twin.test"), []byte("prot.test"))
}

// ---------------------------------------------------------------------------

var scopeSpell = map[string][]string{
	// the last three of each: spellings the Casketfile accepts that path.Clean shortens ("any argument
	// spelling the Casketfile accepts"; Path.Matches documents that it cleans the rule path)
	"/secret":       {"/secret", "/secret/", "/SECRET", `"/secret"`, "/Secret/", "//secret", "/./secret/", "/public/../secret"},
	"/internal":     {"/internal", "/internal/", "/INTERNAL", "/internal//", "/./internal", "/public/../internal"},
	"/noindex/priv": {"/noindex/priv", "/noindex/priv/", "/NOINDEX/priv", "/noindex//priv", "/noindex/./priv/", "/noindex/x/../priv"},
}

var protTargets = []string{
	"/secret/s1.txt", "/secret/", "/secret", "/secret/index.html", "/secret/deep/s2.txt", "/secret/pub/p.txt", "/secret/page.html", "/secret/t.md", "/secret/s1", "/secret/page",
	"/SECRET/s1.txt", "/Secret/deep/s2.txt", "//secret/s1.txt", "/./secret/s1.txt", "/public/../secret/s1.txt", "/secret%2fs1.txt", "/%73ecret/s1.txt", "/secret/./deep/s2.txt", "/secret//s1.txt",
	"/secret/pub/../s1.txt", "/secret/pub/../deep/s2.txt", "/secret/pub/%2e%2e/s1.txt", "/secret/pub/..%2fs1.txt", "/secret/pub", "/secret/pub/", "/secret/PUB/../s1.txt", "/secret/pubx", "/secret/pub/../../secret/s1.txt",
	"/alias", "/ialias", "/r/secret/s1.txt", "/r/internal/i1.txt", "/r//secret/s1.txt", "/r/secret/pub/../s1.txt", "/try", "/try/x", "/secret/out", "/nonexistent", "/nonexistent/",
	"/internal/i1.txt", "/internal/", "/internal/sub/i2.txt", "/INTERNAL/i1.txt", "/./internal/i1.txt", "/internal%2fi1.txt", "/public/../internal/i1.txt", "/internal/i1",
	"/?archive=zip", "/?archive=tar", "/?archive=tar.gz", "/secret/?archive=zip", "/secret/deep/?archive=tar", "/noindex/?archive=zip", "/internal/?archive=tar", "/secret/pub/?archive=zip",
	"/secret/api/x", "/secret/api/", "/internal/api/y", "/papi/z", "/papi/secret/s1.txt", "/secret/s1.txt.gz", "/public/p1.txt", "/", "/index.html", "/public/readme.md", "/public/tpl.html",
	"/noindex/priv/n1.txt", "/noindex/priv/", "/noindex/priv/more/n2.txt", "/noindex/PRIV/n1.txt", "/noindex//priv/n1.txt", "/noindex/./priv/n1.txt", "/noindex/priv/?archive=zip", "/noindex/?archive=tar", "/noindex/?archive=tar.gz", "/noindex/", "/noindex/inner/../priv/n1.txt",
	"/secret/fcgi/x", "/secret/fcgi/x.php", "/SECRET/fcgi/x", "/pfcgi/../secret/fcgi/y", "/secret/fcgi/", "/falias", "/internal/fcgi/z", "/pfcgi/q", "/pfcgi/secret/s1.txt", "//secret/fcgi/x", "/secret/./fcgi/x",
	"/public/p1", "/public/p1.txt", "/secret/page", "/secret/s1",
	"/secret/public.key", "/secret/pubkeys/k.txt", "/secret/pubkeys/", "/secret/PUBLIC.key", "/secret/pub/../public.key",
	"/secret/s1.txt?x=1", "/secret/s1.txt/", "/secret/deep", "/secret/deep/", "/secret\\s1.txt", "/secret/s1.txt%00", "/secret;/s1.txt", "/.//secret/s1.txt",
}

func genSite(t *rapid.T) Site {
	s := Site{}
	kind := rapid.IntRange(0, 3).Draw(t, "kind")
	if kind <= 2 {
		a := AuthRule{User: "alice", Pass: "wonder-land"}
		a.Resources = []string{rapid.SampledFrom(scopeSpell["/secret"]).Draw(t, "res0")}
		if rapid.IntRange(0, 2).Draw(t, "privres") == 0 {
			a.Resources = append(a.Resources, rapid.SampledFrom(scopeSpell["/noindex/priv"]).Draw(t, "res0b"))
		}
		if rapid.IntRange(0, 3).Draw(t, "twores") == 0 {
			a.Resources = append(a.Resources, rapid.SampledFrom(scopeSpell["/internal"]).Draw(t, "res1"))
		}
		if rapid.IntRange(0, 2).Draw(t, "excl") == 0 {
			a.Exclude = []string{rapid.SampledFrom([]string{"/secret/pub", "/secret/pub/", "/SECRET/pub"}).Draw(t, "exclp")}
		}
		a.Realm = rapid.IntRange(0, 3).Draw(t, "realm") == 0
		a.Htpasswd = rapid.IntRange(0, 2).Draw(t, "htpasswd") == 0
		s.Auth = append(s.Auth, a)
		if rapid.IntRange(0, 2).Draw(t, "tworules") == 0 {
			b := AuthRule{User: "bob", Pass: "builder", Resources: []string{rapid.SampledFrom([]string{"/secret/deep", "/internal", "/secret/pub", "/secret/api", "/secret/page.html", "/public/p1.txt", "/secret/s1.txt"}).Draw(t, "res2")}}
			b.Htpasswd = rapid.IntRange(0, 2).Draw(t, "htpasswd2") == 0
			if rapid.IntRange(0, 2).Draw(t, "excl2") == 0 {
				b.Exclude = []string{rapid.SampledFrom([]string{"/secret/deep/open", "/internal/sub"}).Draw(t, "excl2p")}
			}
			s.Auth = append(s.Auth, b)
		}
	}
	if kind >= 2 {
		s.Internal = []string{rapid.SampledFrom(scopeSpell["/internal"]).Draw(t, "int0")}
		if rapid.IntRange(0, 2).Draw(t, "intghost") == 0 {
			// an internal path with nothing on disk, written before the others (a URL prefix served by a backend, say)
			s.Internal = append([]string{rapid.SampledFrom([]string{"/api/private", "/no/such/file.txt"}).Draw(t, "intg")}, s.Internal...)
		}
		if rapid.IntRange(0, 3).Draw(t, "intfile") == 0 {
			// an internal *file*, among them index pages of directories that are not internal themselves
			s.Internal = append(s.Internal, rapid.SampledFrom([]string{"/secret/index.html", "/index.html", "/public/p1.txt", "/noindex/priv/n1.txt"}).Draw(t, "intf"))
		}
		if rapid.IntRange(0, 2).Draw(t, "intpriv") == 0 {
			// an internal scope below a directory without index page, so that listings and archives of its parent exist
			s.Internal = append(s.Internal, rapid.SampledFrom(scopeSpell["/noindex/priv"]).Draw(t, "int0b"))
		}
		if kind == 3 && rapid.Bool().Draw(t, "int2") {
			s.Internal = append(s.Internal, rapid.SampledFrom(scopeSpell["/secret"]).Draw(t, "int1"))
		}
	}
	picked := rapid.SliceOfNDistinct(rapid.SampledFrom(otherNames), 0, 7, func(s string) string { return s }).Draw(t, "others")
	hasBrowse, hasRw := false, 0
	for _, o := range picked {
		if strings.HasPrefix(o, "browse") {
			if hasBrowse {
				continue
			}
			hasBrowse = true
		}
		if strings.HasPrefix(o, "rewrite") {
			hasRw++
		}
		s.Others = append(s.Others, o)
	}
	// a scope that names one file invites the aliases the path-rewriting directives make for it
	if len(fileScopes(s)) > 0 && !hasOther(s, "ext") && rapid.Bool().Draw(t, "extforfile") {
		s.Others = append(s.Others, "ext")
	}
	sort.Strings(s.Others)
	return s
}

// fileScopes lists the protected scopes that name a single file.
func fileScopes(s Site) []string {
	var out []string
	add := func(p string) {
		if strings.HasSuffix(p, ".txt") || strings.HasSuffix(p, ".html") {
			out = append(out, p)
		}
	}
	for _, a := range s.Auth {
		for _, r := range a.Resources {
			add(r)
		}
	}
	for _, p := range s.Internal {
		add(p)
	}
	return out
}

// ancestorOfScope: is dir a strict ancestor of some basicauth scope of the site?
// (internal paths are hidden from archives; only basicauth scopes are affected
// by the listed finding)
func ancestorOfScope(s Site, dir string) bool {
	var scopes []string
	for _, a := range s.Auth {
		scopes = append(scopes, a.Resources...)
	}
	d := strings.ToLower(strings.TrimSuffix(dir, "/")) + "/"
	for _, sc := range scopes {
		c := strings.ToLower(path.Clean(unquote(sc)))
		if strings.HasPrefix(c+"/", d) && c+"/" != d {
			return true
		}
	}
	return false
}

// archiveCrossesProtection is the shape of the listed finding: the request may
// see the directory it asks an archive of (as far as basicauth is concerned),
// but some file below it is protected by a basicauth rule the request does not
// satisfy (a scope below the directory, or an exclude that hands a sub-tree to
// another rule). The archive walker does not consult basicauth per file.
func archiveCrossesProtection(s Site, r Req, dir string) bool {
	if ancestorOfScope(s, dir) {
		return true
	}
	noInternal := Site{Auth: s.Auth}
	if forb, _ := disclosureForbidden(noInternal, r, strings.TrimSuffix(dir, "/")+"/"); forb {
		return false
	}
	prefix := strings.ToLower(strings.TrimSuffix(dir, "/")) + "/"
	for rel, f := range setupOnce().Files {
		if f.Outside || !strings.HasPrefix(strings.ToLower("/"+rel), prefix) {
			continue
		}
		if forb, _ := disclosureForbidden(noInternal, r, "/"+rel); forb {
			return true
		}
	}
	return false
}

func hasOther(s Site, name string) bool {
	for _, o := range s.Others {
		if o == name {
			return true
		}
	}
	return false
}

var fcgiTargets = []string{"/secret/fcgi/x", "/secret/fcgi/x.php", "/SECRET/fcgi/x", "/pfcgi/../secret/fcgi/y", "/secret/fcgi/", "/falias", "/internal/fcgi/z", "/pfcgi/q", "//secret/fcgi/x", "/secret/./fcgi/x", "/pfcgi/..%2fsecret/fcgi/y", "/INTERNAL/fcgi/z"}

// genTarget draws from the general list, and more often from the targets that
// reach a FastCGI rule when the site has one.
func genTarget(t *rapid.T, s Site, lb string) string {
	for _, o := range s.Others {
		if strings.Contains(o, "fcgi") && rapid.IntRange(0, 3).Draw(t, lb+"f") == 0 {
			return rapid.SampledFrom(fcgiTargets).Draw(t, lb+"ft")
		}
	}
	if fs := fileScopes(s); len(fs) > 0 && rapid.IntRange(0, 5).Draw(t, lb+"fs") == 0 {
		// other names of a file-shaped scope: without its extension (ext), in another letter case, with a slash
		f := rapid.SampledFrom(fs).Draw(t, lb+"fsf")
		bare := strings.TrimSuffix(strings.TrimSuffix(f, ".txt"), ".html")
		return rapid.SampledFrom([]string{bare, bare, strings.ToUpper(bare), f, f + "/", bare + "/"}).Draw(t, lb+"fst")
	}
	return rapid.SampledFrom(protTargets).Draw(t, lb+"t")
}

func TestProtected(t *testing.T) {
	if vt.ReplayPath() != "" {
		t.Skip("replay mode")
	}
	rapid.Check(t, func(t *rapid.T) {
		c := &Case{Site: genSite(t)}
		for _, a := range c.Site.Auth {
			if a.Htpasswd && !c.HtRotate {
				c.HtRotate = rapid.IntRange(0, 2).Draw(t, "htrotate") == 0
			}
		}
		n := rapid.IntRange(15, 50).Draw(t, "nreq")
		for i := 0; i < n; i++ {
			lb := fmt.Sprintf("r%d", i)
			r := Req{Method: rapid.SampledFrom([]string{"GET", "GET", "GET", "HEAD", "POST", "PUT", "DELETE", "PROPFIND", "OPTIONS", "options", "Options", "OPTIONSX", "get"}).Draw(t, lb+"m"),
				Target: genTarget(t, c.Site, lb),
				AE:     rapid.SampledFrom([]string{"-", "gzip", "gzip, br", "zstd, gzip"}).Draw(t, lb+"ae"),
				Cred:   rapid.SampledFrom([]string{"none", "none", "none", "wrongpw", "wronguser", "emptypw", "fileuser", "malformed", "rule0", "rule0", "rule1"}).Draw(t, lb+"c")}
			if c.HtRotate && rapid.IntRange(0, 3).Draw(t, lb+"rev") == 0 {
				r.Cred = "revoked"
			}
			if vt.Open("archive-bypasses-protection") && hasOther(c.Site, "browse-arch") && strings.Contains(r.Target, "archive=") {
				// exclude by construction exactly the listed finding: an archive of a
				// directory that is a strict ancestor of a protected scope
				if u, err := url.ParseRequestURI(r.Target); err == nil && archiveCrossesProtection(c.Site, r, path.Clean("/"+u.Path)) {
					vt.Excluded("protected", "archive-bypasses-protection")
					r.Target = "/noindex/inner/?archive=zip"
				}
			}
			c.Reqs = append(c.Reqs, r)
		}
		nt, err := runCase(c)
		classes := []string{}
		if len(c.Site.Auth) > 0 {
			classes = append(classes, "basicauth")
		}
		if len(c.Site.Internal) > 0 {
			classes = append(classes, "internal")
		}
		for _, o := range c.Site.Others {
			classes = append(classes, "d:"+o)
		}
		vt.Record("protected", c, nt > 0, classes...)
		vt.Extra("protected", "requests", len(c.Reqs))
		vt.Extra("protected", "nontrivial_requests", nt)
		vt.Check(t, "protected", c, err)
	})
}

// TestKnown replays the minimal reproduction of the open finding and prints
// the KNOWN-FINDING line while it still fails.
func TestKnown(t *testing.T) {
	if vt.ReplayPath() != "" {
		t.Skip("replay mode")
	}
	if !vt.Open("archive-bypasses-protection") {
		return
	}
	c := &Case{Site: Site{Auth: []AuthRule{{Resources: []string{"/noindex/priv"}, User: "alice", Pass: "wonder-land"}}, Others: []string{"browse-arch"}},
		Reqs: []Req{{Method: "GET", Target: "/noindex/?archive=tar", AE: "-", Cred: "none"}}}
	if _, err := runCase(c); err != nil && !vt.IsHarnessErr(err) {
		vt.PrintKnown("archive-bypasses-protection")
	}
}

func replayCase(rf *vt.ReplayFile) error {
	var c Case
	if err := vt.Decode(rf, &c); err != nil {
		return err
	}
	_, err := runCase(&c)
	return err
}

func TestReplay(t *testing.T) { vt.RunReplay(t, replayCase) }
func TestCorpus(t *testing.T) { vt.RunCorpus(t, replayCase) }
