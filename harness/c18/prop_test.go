package c18

import (
	"bytes"
	"compress/gzip"
	"fmt"
	"io"
	"os"
	"path/filepath"
	"strconv"
	"strings"
	"sync"
	"sync/atomic"
	"testing"

	"pgregory.net/rapid"

	"verif/harness/internal/probe"
	"verif/harness/internal/srv"
	"verif/harness/internal/vt"
)

var root string

func TestMain(m *testing.M) {
	vt.Property = "C18"
	probe.Register()
	vt.Main(m)
}

var fixtureOnce sync.Once

// fixture: s0.txt .. s7.txt, bit0=.gz bit1=.br bit2=.zst siblings; plus html/bin variants
func fixture() string {
	fixtureOnce.Do(func() {
		root = filepath.Join(vt.WorkDir, "root")
		os.MkdirAll(filepath.Join(root, "static"), 0o755)
		write := func(name string, mask int, n int) {
			content := []byte(strings.Repeat(fmt.Sprintf("TOK-%s-plain the quick brown fox ", name), n))
			os.WriteFile(filepath.Join(root, name), content, 0o644)
			if mask&1 != 0 {
				var b bytes.Buffer
				zw := gzip.NewWriter(&b)
				zw.Write(content)
				zw.Close()
				os.WriteFile(filepath.Join(root, name+".gz"), b.Bytes(), 0o644)
			}
			if mask&2 != 0 {
				os.WriteFile(filepath.Join(root, name+".br"), []byte(strings.Repeat("TOK-"+name+"-BR-SIBLING-BYTES ", 20)), 0o644)
			}
			if mask&4 != 0 {
				os.WriteFile(filepath.Join(root, name+".zst"), []byte(strings.Repeat("TOK-"+name+"-ZST-SIBLING-BYTES ", 20)), 0o644)
			}
		}
		for mask := 0; mask < 8; mask++ {
			write(fmt.Sprintf("s%d.txt", mask), mask, 60)
			write(fmt.Sprintf("static/s%d.html", mask), mask, 3)
		}
		write("s7.bin", 7, 60)
		write("index.html", 5, 40)
	})
	return root
}

// ---------------------------------------------------------------------------

type GzipCfg struct {
	Ext       []string `json:"ext,omitempty"`
	Not       []string `json:"not,omitempty"`
	Level     string   `json:"level,omitempty"`
	MinLength int      `json:"min_length,omitempty"`
}

type Req struct {
	Method string        `json:"method"`
	Path   string        `json:"path"`
	AE     string        `json:"ae"` // "-" = header absent
	Script *probe.Script `json:"script,omitempty"`
}

type Case struct {
	Gzip []GzipCfg `json:"gzip"` // 1-2 gzip directives
	Reqs []Req     `json:"reqs"`
}

func casketfile(c *Case) string {
	var sb strings.Builder
	fmt.Fprintf(&sb, "http://gz.test:0 {\n\troot %s\n", fixture())
	for _, g := range c.Gzip {
		sb.WriteString("\tgzip {\n")
		if len(g.Ext) > 0 {
			fmt.Fprintf(&sb, "\t\text %s\n", strings.Join(g.Ext, " "))
		}
		if len(g.Not) > 0 {
			fmt.Fprintf(&sb, "\t\tnot %s\n", strings.Join(g.Not, " "))
		}
		if g.Level != "" {
			fmt.Fprintf(&sb, "\t\tlevel %s\n", g.Level)
		}
		if g.MinLength > 0 {
			fmt.Fprintf(&sb, "\t\tmin_length %d\n", g.MinLength)
		}
		sb.WriteString("\t}\n")
	}
	sb.WriteString("\tzz_probe\n}\n")
	fmt.Fprintf(&sb, "http://plain.test:0 {\n\troot %s\n\tzz_probe\n}\n", fixture())
	return sb.String()
}

var idSeq int64

func doReq(addr, host string, r Req) (*srv.Resp, error) {
	hdr := [][2]string{{"Connection", "close"}}
	if r.AE != "-" {
		hdr = append(hdr, [2]string{"Accept-Encoding", r.AE})
	}
	if r.Script != nil {
		s := *r.Script
		s.ID = fmt.Sprintf("k%d", atomic.AddInt64(&idSeq, 1))
		hdr = append(hdr, [2]string{"X-Probe", probe.Encode(&s)})
		defer probe.Take(s.ID)
	}
	return srv.Once(addr, r.Method, srv.Request(r.Method, r.Path, host, hdr, nil))
}

func gunzip(b []byte) ([]byte, error) {
	zr, err := gzip.NewReader(bytes.NewReader(b))
	if err != nil {
		return nil, err
	}
	out, err := io.ReadAll(zr)
	if err != nil {
		return nil, err
	}
	// nothing may follow the gzip stream
	return out, nil
}

// offered reports whether the Accept-Encoding value ae makes the coding
// acceptable (RFC 9110 12.5.3): listed with a non-zero weight, or covered by
// a "*" with a non-zero weight while not listed itself.
func offered(ae, coding string) bool {
	if ae == "-" {
		return false
	}
	star, listed, ok := false, false, false
	for _, p := range strings.Split(ae, ",") {
		parts := strings.Split(p, ";")
		name := strings.TrimSpace(parts[0])
		q := 1.0
		for _, prm := range parts[1:] {
			prm = strings.TrimSpace(prm)
			if len(prm) > 2 && (prm[0] == 'q' || prm[0] == 'Q') && prm[1] == '=' {
				if v, err := strconv.ParseFloat(prm[2:], 64); err == nil {
					q = v
				}
			}
		}
		switch {
		case strings.EqualFold(name, coding) || (coding == "gzip" && strings.EqualFold(name, "x-gzip")):
			listed = true
			if q > 0 {
				ok = true
			}
		case name == "*":
			if q > 0 {
				star = true
			}
		}
	}
	return ok || (star && !listed)
}

func offeredGzip(ae string) bool { return offered(ae, "gzip") }

func runCase(c *Case) (nontrivial int, err error) {
	inst, e := srv.Start(casketfile(c), "")
	if e != nil {
		srv.Stop(inst)
		return 0, fmt.Errorf("HARNESS: start: %v\n%s", e, casketfile(c))
	}
	defer srv.Stop(inst)
	addr := srv.Loopback(srv.Addrs(inst)[0])
	baseline := map[int]*srv.Resp{}
	defer func() {
		if err == nil {
			err = burst(c, addr, baseline)
		}
	}()
	for i, r := range c.Reqs {
		if isNontrivial(c, r) {
			nontrivial++
		}
		g, e1 := doReq(addr, "gz.test", r)
		p, e2 := doReq(addr, "plain.test", r)
		desc := fmt.Sprintf("request %d %s %s AE=%q script=%s", i, r.Method, r.Path, r.AE, scriptDesc(r.Script))
		if e2 != nil {
			if e1 != nil {
				continue // the inner response itself is malformed (e.g. wrong Content-Length): no verdict
			}
			continue
		}
		if e1 != nil {
			return nontrivial, fmt.Errorf("%s: with gzip enabled the response is not well-formed (%v); without gzip it is %d with %d body bytes", desc, e1, p.Status, len(p.Body))
		}
		if r.Script != nil && len(r.Script.Chunks) > 0 && r.Script.Ret >= 400 {
			continue // contract abuse: no assertion on this response
		}
		if aerr := absolute(r, p); aerr != nil {
			return nontrivial, fmt.Errorf("%s (site without gzip): %v", desc, aerr)
		}
		baseline[i] = p
		if g.Status != p.Status {
			return nontrivial, fmt.Errorf("%s: status %d with gzip, %d without", desc, g.Status, p.Status)
		}
		gce, pce := g.Header.Get("Content-Encoding"), p.Header.Get("Content-Encoding")
		if strings.EqualFold(pce, "identity") && !strings.EqualFold(gce, "identity") {
			pce = "" // identity names no coding
		}
		if cl := g.Header.Get("Content-Length"); cl != "" && r.Method != "HEAD" && p.Status != 304 && p.Status != 204 {
			if cl != fmt.Sprint(len(g.Body)) {
				return nontrivial, fmt.Errorf("%s: Content-Length %s but %d body bytes on the wire", desc, cl, len(g.Body))
			}
		}
		switch {
		case gce == pce:
			if len(g.Header.Values("Content-Encoding")) != len(p.Header.Values("Content-Encoding")) && pce != "" {
				return nontrivial, fmt.Errorf("%s: Content-Encoding header values %q with gzip, %q without", desc, g.Header.Values("Content-Encoding"), p.Header.Values("Content-Encoding"))
			}
			if !bytes.Equal(g.Body, p.Body) {
				return nontrivial, fmt.Errorf("%s: same Content-Encoding %q but different bodies: %d bytes %q with gzip, %d bytes %q without", desc, gce, len(g.Body), clip(g.Body), len(p.Body), clip(p.Body))
			}
		case pce == "" && gce == "gzip":
			if !offeredGzip(r.AE) {
				return nontrivial, fmt.Errorf("%s: client did not offer gzip but the response is gzip-coded", desc)
			}
			if r.Method == "HEAD" || g.Status == 204 || g.Status == 304 || g.Status < 200 {
				break // no body on the wire by definition
			}
			// an empty identity body is no excuse: zero bytes are not a gzip stream, a client that honours
			// the label cannot decode them
			dec, derr := gunzip(g.Body)
			if derr != nil {
				return nontrivial, fmt.Errorf("%s: labelled gzip but the body does not decode (%v): %d bytes %q; identity body is %d bytes", desc, derr, len(g.Body), clip(g.Body), len(p.Body))
			}
			if !bytes.Equal(dec, p.Body) {
				return nontrivial, fmt.Errorf("%s: decoded gzip body (%d bytes %q) differs from the identity body (%d bytes %q)", desc, len(dec), clip(dec), len(p.Body), clip(p.Body))
			}
		default:
			return nontrivial, fmt.Errorf("%s: Content-Encoding is %q with gzip enabled but %q without: an already encoded response was encoded again or mislabelled (wire body %d vs %d bytes)", desc, gce, pce, len(g.Body), len(p.Body))
		}
	}
	return nontrivial, nil
}

// absolute oracle for the identity site: the body is what the script wrote,
// or the named file / an accepted precompressed sibling of it.
func absolute(r Req, p *srv.Resp) error {
	if r.Method == "HEAD" {
		return nil
	}
	if r.Script != nil {
		if r.Script.NoWrite || p.Status == 204 || p.Status == 304 {
			return nil
		}
		var want []byte
		for _, ch := range r.Script.Chunks {
			want = append(want, ch...)
		}
		if cl := r.Script.Header["Content-Length"]; len(cl) > 0 && cl[0] != fmt.Sprint(len(want)) {
			return nil
		}
		if !bytes.Equal(p.Body, want) {
			return fmt.Errorf("handler wrote %d bytes, client received %d bytes %q", len(want), len(p.Body), clip(p.Body))
		}
		return nil
	}
	if p.Status != 200 {
		return nil
	}
	name := r.Path
	if name == "/" {
		name = "/index.html"
	}
	ce := p.Header.Get("Content-Encoding")
	file := filepath.Join(fixture(), filepath.FromSlash(name))
	if ce != "" {
		if !offered(r.AE, ce) {
			return fmt.Errorf("static file served with Content-Encoding %q which the client (Accept-Encoding %q) did not offer", ce, r.AE)
		}
		ext := map[string]string{"gzip": ".gz", "br": ".br", "zstd": ".zst"}[ce]
		if ext == "" {
			return fmt.Errorf("static file served with unknown Content-Encoding %q", ce)
		}
		file += ext
	}
	want, err := os.ReadFile(file)
	if err != nil {
		return fmt.Errorf("response claims coding %q but there is no such sibling of %s", ce, name)
	}
	if !bytes.Equal(p.Body, want) {
		return fmt.Errorf("body (%d bytes %q) is not the content of %s (%d bytes)", len(p.Body), clip(p.Body), filepath.Base(file), len(want))
	}
	return nil
}

// burst re-issues all requests of the case concurrently against the gzip
// site (twice) and compares each with the identity baseline recorded in the
// sequential phase: state shared between requests (pooled writers) must not
// leak from one response into another.
func burst(c *Case, addr string, baseline map[int]*srv.Resp) error {
	type out struct {
		i   int
		g   *srv.Resp
		err error
	}
	for round := 0; round < 2; round++ {
		// first the handlers that fail after writing, one after the other, so that
		// whatever they leave behind (pooled state) is fresh when the batch starts
		for _, r := range c.Reqs {
			if r.Script != nil && len(r.Script.Chunks) > 0 && r.Script.Ret >= 400 {
				// a handler that fails after it has started writing (a backend dying mid-body):
				// several of them, so that whatever they leave behind is there in numbers
				for k := 0; k < 8; k++ {
					doReq(addr, "gz.test", r)
				}
			}
		}
		const copies = 6
		ch := make(chan out, copies*len(c.Reqs))
		for k := 0; k < copies; k++ {
			for i, r := range c.Reqs {
				go func(i int, r Req) {
					g, err := doReq(addr, "gz.test", r)
					ch <- out{i, g, err}
				}(i, r)
			}
		}
		var firstErr error
		for n := 0; n < copies*len(c.Reqs); n++ {
			o := <-ch
			p := baseline[o.i]
			if p == nil || firstErr != nil {
				continue
			}
			r := c.Reqs[o.i]
			desc := fmt.Sprintf("concurrent round %d, request %d %s %s AE=%q script=%s", round, o.i, r.Method, r.Path, r.AE, scriptDesc(r.Script))
			if o.err != nil {
				firstErr = fmt.Errorf("%s: response not well-formed under concurrency: %v", desc, o.err)
				continue
			}
			g := o.g
			if g.Status != p.Status {
				firstErr = fmt.Errorf("%s: status %d, sequential identity run had %d", desc, g.Status, p.Status)
				continue
			}
			if r.Method == "HEAD" || len(g.Body) == 0 && len(p.Body) == 0 {
				continue
			}
			body := g.Body
			if g.Header.Get("Content-Encoding") == "gzip" && p.Header.Get("Content-Encoding") != "gzip" {
				dec, derr := gunzip(g.Body)
				if derr != nil {
					firstErr = fmt.Errorf("%s: labelled gzip but does not decode (%v): %d wire bytes, identity body %d bytes", desc, derr, len(g.Body), len(p.Body))
					continue
				}
				body = dec
			}
			if !bytes.Equal(body, p.Body) {
				firstErr = fmt.Errorf("%s: decoded body (%d bytes %q) differs from the identity body (%d bytes %q)", desc, len(body), clip(body), len(p.Body), clip(p.Body))
			}
		}
		if firstErr != nil {
			return firstErr
		}
	}
	return nil
}

func clip(b []byte) string {
	if len(b) > 48 {
		return string(b[:48]) + "..."
	}
	return string(b)
}

func scriptDesc(s *probe.Script) string {
	if s == nil {
		return "static"
	}
	n := 0
	for _, c := range s.Chunks {
		n += len(c)
	}
	return fmt.Sprintf("{status:%d hdr:%v chunks:%d bytes:%d flush:%v nowrite:%v ret:%d}", s.Status, s.Header, len(s.Chunks), n, s.Flush, s.NoWrite, s.Ret)
}

func isNontrivial(c *Case, r Req) bool {
	if r.Script != nil {
		if ce := r.Script.Header["Content-Encoding"]; len(ce) > 0 {
			return true
		}
		total := 0
		for _, ch := range r.Script.Chunks {
			total += len(ch)
		}
		for _, g := range c.Gzip {
			if g.MinLength > 0 && abs(g.MinLength-total) <= 1 {
				return true
			}
		}
		fl := false
		for _, f := range r.Script.Flush {
			fl = fl || f
		}
		return len(r.Script.Chunks) >= 2 && fl
	}
	// static: >= 2 siblings eligible for the offered codings
	n := 0
	for _, enc := range []struct{ name, ext string }{{"zstd", ".zst"}, {"br", ".br"}, {"gzip", ".gz"}} {
		if r.AE != "-" && strings.Contains(r.AE, enc.name) {
			if _, err := os.Stat(filepath.Join(fixture(), filepath.FromSlash(strings.TrimSuffix(r.Path, "/"))+enc.ext)); err == nil {
				n++
			}
		}
	}
	return n >= 2 || (n >= 1 && strings.Contains(r.AE, "gzip"))
}

func abs(x int) int {
	if x < 0 {
		return -x
	}
	return x
}

// ---------------------------------------------------------------------------
// generators

var aeVals = []string{"-", "gzip", "gzip, br", "zstd, gzip", "br", "identity", "gzip, deflate, br, zstd", "zstd", "br, gzip", "deflate", "GZIP", "zstd,gzip",
	"gzip;q=0", "gzip;q=0.5, br", "*;q=0", "identity;q=1, *;q=0", "br;q=1.0, gzip;q=0.0", "*", "x-gzip", "deflate, gzip;q=0", "gzip;q=0.000", "gzip;q=1", "zstd;q=0, gzip", "br;q=0, zstd;q=0.8", "gzip;q=0, *", "ungzipped"}

func genGzip(t *rapid.T, lb string) GzipCfg {
	g := GzipCfg{}
	switch rapid.IntRange(0, 3).Draw(t, lb+"ext") {
	case 1:
		g.Ext = []string{"*"}
	case 2:
		g.Ext = rapid.SliceOfNDistinct(rapid.SampledFrom([]string{".txt", ".html", ".bin", ""}), 1, 3, func(s string) string { return s }).Draw(t, lb+"exts")
		for i, e := range g.Ext {
			if e == "" {
				g.Ext[i] = `""`
			}
		}
	}
	if rapid.IntRange(0, 3).Draw(t, lb+"not") == 0 {
		g.Not = []string{rapid.SampledFrom([]string{"/p/skip", "/static", "/s1.txt"}).Draw(t, lb+"notp")}
	}
	if rapid.IntRange(0, 2).Draw(t, lb+"lvl") == 0 {
		g.Level = rapid.SampledFrom([]string{"1", "5", "9", "0", "-1", "99"}).Draw(t, lb+"level")
	}
	if rapid.IntRange(0, 2).Draw(t, lb+"ml") == 0 {
		g.MinLength = rapid.SampledFrom([]int{1, 10, 11, 12, 1000, 1001, 5000, 100000}).Draw(t, lb+"minlen")
	}
	return g
}

var chunkSizes = []int{0, 1, 10, 11, 989, 1000, 5000, 40000}

func genScript(t *rapid.T, lb string) *probe.Script {
	s := &probe.Script{Header: map[string][]string{}}
	k := rapid.IntRange(0, 19).Draw(t, lb+"kind")
	if k == 0 {
		// nothing written, error status returned
		s.NoWrite = true
		s.Ret = rapid.SampledFrom([]int{404, 500, 403}).Draw(t, lb+"ret")
		return s
	}
	if k <= 2 {
		// contract abuse (a handler that wrote part of a response and then reports an
		// error status, as fastcgi does when the backend dies mid-body): sent, but
		// nothing is asserted about this response itself
		s.Status = 200
		s.Header["Content-Type"] = []string{"text/plain"}
		s.Chunks = [][]byte{[]byte(strings.Repeat("partial-body ", 50))}
		s.Flush = []bool{rapid.Bool().Draw(t, lb+"abflush")}
		s.Ret = rapid.SampledFrom([]int{502, 500}).Draw(t, lb+"abret")
		return s
	}
	s.Status = rapid.SampledFrom([]int{200, 200, 200, 0, 201, 204, 304, 404, 500, 206}).Draw(t, lb+"status")
	s.FlushFirst = rapid.IntRange(0, 9).Draw(t, lb+"ff") == 0
	if s.Status != 0 && !s.FlushFirst && rapid.IntRange(0, 9).Draw(t, lb+"early") == 0 {
		s.Early = 103 // Early Hints before the real header: compression is decided with the real one
	}
	nch := rapid.IntRange(0, 4).Draw(t, lb+"nch")
	total := 0
	if s.Status == 204 || s.Status == 304 {
		nch = 0
	}
	for i := 0; i < nch; i++ {
		n := rapid.SampledFrom(chunkSizes).Draw(t, fmt.Sprintf("%sc%d", lb, i))
		ch := []byte(strings.Repeat(fmt.Sprintf("chunk%d-lorem-ipsum ", i), n/18+1))[:n]
		s.Chunks = append(s.Chunks, ch)
		s.Flush = append(s.Flush, rapid.IntRange(0, 2).Draw(t, fmt.Sprintf("%sf%d", lb, i)) == 0)
		total += n
	}
	if nch >= 2 && rapid.IntRange(0, 1).Draw(t, lb+"pause") == 0 {
		s.PauseMs = 2
	}
	if rapid.IntRange(0, 2).Draw(t, lb+"ct") != 0 {
		s.Header["Content-Type"] = []string{rapid.SampledFrom([]string{"text/plain; charset=utf-8", "text/html", "application/octet-stream", "application/json"}).Draw(t, lb+"ctv")}
	}
	if rapid.Bool().Draw(t, lb+"cl") {
		s.Header["Content-Length"] = []string{fmt.Sprint(total)}
	}
	if rapid.IntRange(0, 2).Draw(t, lb+"ce") == 0 {
		s.Header["Content-Encoding"] = []string{rapid.SampledFrom([]string{"gzip", "br", "deflate", "compress", "zstd", "identity", "x-gzip", "br, gzip"}).Draw(t, lb+"cev")}
	}
	switch rapid.IntRange(0, 3).Draw(t, lb+"etag") {
	case 0:
		s.Header["ETag"] = []string{`"abc123"`}
	case 1:
		s.Header["ETag"] = []string{`W/"abc123"`}
	}
	if rapid.IntRange(0, 5).Draw(t, lb+"vary") == 0 {
		s.Header["Vary"] = []string{"Accept-Encoding"}
	}
	return s
}

var probePaths = []string{"/p/x.txt", "/p/x.html", "/p/x.bin", "/p/x", "/p/skip/x.txt", "/p/", "/p/x.TXT"}

func genStaticPath(t *rapid.T, lb string) string {
	switch rapid.IntRange(0, 9).Draw(t, lb+"sk") {
	case 0:
		return "/"
	case 1:
		return "/s7.bin"
	case 2, 3:
		return fmt.Sprintf("/static/s%d.html", rapid.IntRange(0, 7).Draw(t, lb+"m"))
	case 4:
		return "/missing.txt"
	default:
		return fmt.Sprintf("/s%d.txt", rapid.IntRange(0, 7).Draw(t, lb+"m"))
	}
}

func genCase(t *rapid.T) *Case {
	c := &Case{}
	ng := 1
	if rapid.IntRange(0, 4).Draw(t, "twogzip") == 0 {
		ng = 2
	}
	for i := 0; i < ng; i++ {
		c.Gzip = append(c.Gzip, genGzip(t, fmt.Sprintf("g%d", i)))
	}
	nr := rapid.IntRange(3, 10).Draw(t, "nreq")
	for i := 0; i < nr; i++ {
		lb := fmt.Sprintf("r%d", i)
		r := Req{Method: "GET", AE: rapid.SampledFrom(aeVals).Draw(t, lb+"ae")}
		if rapid.IntRange(0, 7).Draw(t, lb+"head") == 0 {
			r.Method = "HEAD"
		}
		if rapid.IntRange(0, 2).Draw(t, lb+"static") == 0 {
			r.Path = genStaticPath(t, lb)
		} else {
			r.Path = rapid.SampledFrom(probePaths).Draw(t, lb+"path")
			r.Script = genScript(t, lb)
		}
		c.Reqs = append(c.Reqs, r)
	}
	return c
}

func TestTransparency(t *testing.T) {
	if vt.ReplayPath() != "" {
		t.Skip("replay mode")
	}
	rapid.Check(t, func(t *rapid.T) {
		c := genCase(t)
		if vt.Open("zstd-sibling-regzipped") {
			// exclude by construction: never offer zstd together with gzip for static files
			for i := range c.Reqs {
				if c.Reqs[i].Script == nil && strings.Contains(c.Reqs[i].AE, "zstd") && strings.Contains(strings.ToLower(c.Reqs[i].AE), "gzip") {
					c.Reqs[i].AE = "gzip, br"
					vt.Excluded("transparency", "zstd-sibling-regzipped")
				}
			}
		}
		nt, err := runCase(c)
		var classes []string
		st, pr := false, false
		for _, r := range c.Reqs {
			if r.Script == nil {
				st = true
			} else {
				pr = true
			}
		}
		if st {
			classes = append(classes, "static")
		}
		if pr {
			classes = append(classes, "probe")
		}
		vt.Record("transparency", c, nt > 0, classes...)
		vt.Extra("transparency", "request_pairs", len(c.Reqs))
		vt.Extra("transparency", "nontrivial_request_pairs", nt)
		vt.Check(t, "transparency", c, err)
	})
}

func replayCase(rf *vt.ReplayFile) error {
	var c Case
	if err := vt.Decode(rf, &c); err != nil {
		return err
	}
	_, err := runCase(&c)
	return err
}

func TestReplay(t *testing.T) { vt.RunReplay(t, replayCase) }
func TestCorpus(t *testing.T) { vt.RunCorpus(t, replayCase) }
